"""infergen: small numeric / string functions with untyped locals (C40).

All locals are initialised from literals at the top of the function (unbound reads are C21's business), then updated
by loops, conditionals and arithmetic that mix literals, other locals and the (untyped, Python object) arguments
a, b (numbers), n (small int), s (str), q (list).  The function returns all its locals, so every inferred variable
is observed with its value *and type*.
"""

HEADER = '''# cython: language_level=3
log = None

'''

INT_LITS = ['0', '1', '2', '3', '7', '-1', '-7', '10', '255', '1000', '65536', '2147483647', '-2147483648', '4294967296',
            '4611686018427387904', '9223372036854775807', '-9223372036854775808', '9223372036854775808', '18446744073709551616']
SMALL_INTS = ['0', '1', '2', '3', '7', '-1', '-7', '10', '255']
FLOAT_LITS = ['0.0', '1.0', '2.5', '-0.5', '1e10', '0.1', '-0.0', '1e308', '3.0']
STR_LITS = ["'abc'", "'h\\xe9llo'", "'a\\u20acb'", "'x\\U0001f600y'", "''", "'Zz9 _'"]
ARITH = ['+', '-', '*', '//', '%', '/']
BITS = ['&', '|', '^']
CMPS = ['<', '<=', '==', '!=', '>', '>=']


class InferGen:
    def __init__(self, rng, name):
        self.rng = rng
        self.name = name
        self.kinds = {}          # local -> kind: int / float / str / bool / mixed
        self.feat = set()
        self.nloop = 0
        self.in_loop = False     # inside a loop only linearly growing updates are generated (resource bound)

    def new_local(self, kind):
        v = 'v%d' % len(self.kinds)
        self.kinds[v] = kind
        return v

    def locals_of(self, *kinds):
        return [v for v, k in self.kinds.items() if k in kinds]

    def num(self):
        """a numeric operand: local, argument or literal"""
        rng = self.rng
        r = rng.random()
        cands = self.locals_of('int', 'float', 'bool', 'mixed')
        if r < 0.5 and cands:
            return rng.choice(cands)
        if r < 0.7:
            return rng.choice(['a', 'b', 'n'])
        if r < 0.9:
            return rng.choice(SMALL_INTS)
        return rng.choice(INT_LITS + FLOAT_LITS)

    def expr(self, target_kind):
        rng = self.rng
        r = rng.random()
        if target_kind == 'bool':
            self.feat.add('bool-local')
            return '%s %s %s' % (self.num(), rng.choice(CMPS), self.num())
        if target_kind == 'str':
            strs = self.locals_of('str')
            r = rng.random()
            if r < 0.3:
                return rng.choice(STR_LITS)
            if r < 0.6 and strs:
                return '%s + %s' % (rng.choice(strs), rng.choice((strs if not self.in_loop else []) + STR_LITS + ['s']))
            if r < 0.8 and strs:
                return '%s[%s:]' % (rng.choice(strs), rng.choice(['1', '-2', 'n']))
            return 's'
        if r < 0.12:
            return rng.choice(INT_LITS if target_kind != 'float' else FLOAT_LITS)
        if r < 0.2:
            self.feat.add('len')
            return 'len(%s)' % rng.choice(self.locals_of('str') + ['s', 'q'])
        if r < 0.3:
            self.feat.add('conditional-expression')
            return '%s if %s %s %s else %s' % (self.num(), self.num(), rng.choice(CMPS), self.num(), self.num())
        if r < 0.4:
            self.feat.add('bitop')
            ints = self.locals_of('int', 'bool') + ['n']
            return '%s %s %s' % (rng.choice(ints), rng.choice(BITS), rng.choice(ints + SMALL_INTS))
        if r < 0.47:
            self.feat.add('shift')
            return '%s %s (%s %% %d)' % (self.num(), rng.choice(['<<', '>>']), rng.choice(self.locals_of('int') + ['n', '3', '40', '64']),
                                        8 if self.in_loop else 70)
        if r < 0.52 and not self.in_loop:
            self.feat.add('power')
            return '%s ** %s' % (self.num(), rng.choice(['2', '3', '(n % 4)']))
        if r < 0.57:
            self.feat.add('unary')
            return rng.choice(['-%s', '~%s', 'abs(%s)', '+%s']) % rng.choice(self.locals_of('int', 'float', 'bool', 'mixed') + ['a', 'n'])
        op = rng.choice(ARITH)
        self.feat.add('arith' + op)
        if op == '*' and self.in_loop:
            # inside loops only multiplication by a small literal (linear growth of the number of digits)
            return '%s * %s' % (self.num(), rng.choice(['2', '3', '10', '-1']))
        return '%s %s %s' % (self.num(), op, self.num())

    def assign(self, ind):
        rng = self.rng
        v = rng.choice(list(self.kinds))
        k = self.kinds[v]
        if k == 'mixed':
            k = rng.choice(['int', 'float'])
        if rng.random() < 0.25 and k in ('int', 'float'):
            op = rng.choice(ARITH[:5] + BITS if k == 'int' else ARITH)
            self.feat.add('inplace')
            if op == '*' and self.in_loop:
                return [ind + '%s *= %s' % (v, rng.choice(['2', '3', '10', '-1']))]
            return [ind + '%s %s= %s' % (v, op, self.num())]
        return [ind + '%s = %s' % (v, self.expr(k))]

    def stmt(self, ind, depth):
        rng = self.rng
        i2 = ind + '    '
        r = rng.random()
        if depth >= 2 or r < 0.45 or (self.in_loop and not (0.74 <= r < 0.9)):
            return self.assign(ind)
        if r < 0.62:
            self.feat.add('range-loop')
            self.nloop += 1
            ints = self.locals_of('int')
            tgt = rng.choice(ints) if ints and rng.random() < 0.5 else 'i%d' % self.nloop
            if tgt in self.kinds:
                self.feat.add('range-target-reused')
            rg = rng.choice(['range(n)', 'range(n %% 7)', 'range(2, n)', 'range(n, 0, -1)', 'range(%s, %s)' % (rng.choice(SMALL_INTS), 'n')])
            body = []
            self.in_loop = True
            for _ in range(rng.randint(1, 3)):
                body += self.stmt(i2, depth + 1)
            self.in_loop = False
            if rng.random() < 0.4:
                body.append(i2 + '%s = %s + %s' % (rng.choice(self.locals_of('int', 'float', 'mixed') or ['n']), rng.choice(self.locals_of('int', 'float', 'mixed') or ['n']), tgt))
            return [ind + 'for %s in %s:' % (tgt, rg)] + body
        if r < 0.74:
            self.feat.add('char-loop')
            self.nloop += 1
            src = rng.choice(self.locals_of('str') + ['s'])
            c = 'c%d' % self.nloop
            acts = []
            ints = self.locals_of('int', 'mixed')
            strs = self.locals_of('str')
            for _ in range(rng.randint(1, 2)):
                a = rng.random()
                if a < 0.3 and ints:
                    acts.append(i2 + '%s = %s + ord(%s)' % (rng.choice(ints), rng.choice(ints), c))
                elif a < 0.5 and strs:
                    t_ = rng.choice(strs)
                    acts.append(i2 + '%s = %s + %s' % (t_, rng.choice([c, c + '.upper()', c + ' * 2']), t_))
                elif a < 0.7 and ints:
                    acts.append(i2 + "if %s %s %s:" % (c, rng.choice(['==', '<', '>=', 'in']), rng.choice(["'a'", "'\\xe9'", "'z'"]) if True else ''))
                    acts.append(i2 + '    %s = %s + 1' % ((rng.choice(ints),) * 2))
                else:
                    acts.append(i2 + "log((%s, %s * 2, %s + 'x', %s == 'a'))" % (c, c, c, c))
            return [ind + 'for %s in %s:' % (c, src)] + acts
        if r < 0.9:
            self.feat.add('if')
            out = [ind + 'if %s %s %s:' % (self.num(), rng.choice(CMPS), self.num())]
            for _ in range(rng.randint(1, 2)):
                out += self.stmt(i2, depth + 1)
            if rng.random() < 0.5:
                out.append(ind + 'else:')
                for _ in range(rng.randint(1, 2)):
                    out += self.stmt(i2, depth + 1)
            return out
        self.feat.add('while-growth')
        self.nloop += 1
        c = 'k%d' % self.nloop
        v = rng.choice(self.locals_of('int', 'mixed', 'float') or ['a'])
        if v == 'a':
            return self.assign(ind)
        g = rng.choice(['%s = %s * 3 + %s' % (v, v, c), '%s = %s * %s' % (v, v, rng.choice(['2', '10', '1000000007'])),
                        '%s = %s + %s * %s' % (v, v, v, c), '%s = %s << 7' % (v, v) if self.kinds[v] != 'float' else '%s = %s * 1e30' % (v, v)])
        return [ind + '%s = 0' % c, ind + 'while %s < n:' % c, i2 + '%s += 1' % c, i2 + g]

    def function(self):
        rng = self.rng
        nl = rng.randint(2, 5)
        init = []
        for _ in range(nl):
            k = rng.choice(['int', 'int', 'int', 'float', 'float', 'str', 'bool', 'mixed'])
            v = self.new_local(k)
            if k == 'int':
                init.append('    %s = %s' % (v, rng.choice(INT_LITS if rng.random() < 0.4 else SMALL_INTS)))
            elif k == 'float':
                init.append('    %s = %s' % (v, rng.choice(FLOAT_LITS)))
            elif k == 'str':
                init.append('    %s = %s' % (v, rng.choice(STR_LITS)))
            elif k == 'bool':
                init.append('    %s = %s' % (v, rng.choice(['True', 'False', 'a > b', 'n == 3'])))
            else:
                init.append('    %s = %s' % (v, rng.choice(SMALL_INTS)))
                self.feat.add('int-then-float-local')
        body = []
        for _ in range(rng.randint(2, 6)):
            body += self.stmt('    ', 0)
        ret = '    return (%s,)' % ', '.join(self.kinds)
        return 'def %s(a, b, n, s, q):\n%s\n' % (self.name, '\n'.join(init + body + [ret]))


def gen_function(rng, name):
    for _ in range(50):
        g = InferGen(rng, name)
        src = g.function()
        try:
            compile(src, name, 'exec')
        except SyntaxError:
            continue
        return {'name': name, 'src': src, 'feat': sorted(g.feat), 'kinds': dict(g.kinds)}
    raise RuntimeError('infergen failed')


A_VALUES = ['0', '1', '-1', '3', '-7', '255', '2**31 - 1', '2**31', '-2**31 - 1', '2**32 + 5', '2**62', '2**63 - 1', '2**63',
            '-2**63', '-2**63 - 1', '2**64 + 3', '10**30', '-2**64', '2**63 + 2**40', '-10**25', '2**70', '-2**66', '3 * 2**62',
            '2**63 + 1', '2.5', '-0.5', '1e300', 'True']
B_VALUES = ['0', '1', '2', '-3', '7', '2**31', '2**63 - 1', '-2**63', '2**65', '-2**64', '2**63', '0.5', '-2.0', '3']
N_VALUES = ['0', '1', '2', '3', '4', '5', '7', '9']
S_VALUES = ["''", "'a'", "'abc'", "'a\\xe9z'", "'\\u20acuro'", "'x\\U0001f600'"]


def inputs(rng, count):
    out = []
    for _ in range(count):
        out.append('(%s, %s, %s, %s, %s)' % (rng.choice(A_VALUES), rng.choice(B_VALUES), rng.choice(N_VALUES),
                                              rng.choice(S_VALUES), rng.choice(['[]', '[1, 2, 3]', '[0] * 9'])))
    return sorted(set(out))
