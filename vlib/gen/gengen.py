"""Generator of generator / coroutine / async-generator bodies and of operation histories (C23).

Every suspension point yields a unique small integer id (or a tuple starting with it); the module
exports CTX = {id: lexical context}, which lets the harness name the state an operation arrives in.
Ids >= 1000 are produced by delegates (sub-generators, awaitables), i.e. 'in delegation'.
"""

HEADER = '''# cython: language_level=3
import sys
log = HOLD = CM = PlainIter = ThrowRaises = CloseRaises = SendIter = pysub = pysub_ignore = pysub_ret = None
PyAw = ItAw = pycoro = tcoro = ACM = AIter = pyagen = MyErr = MyBase = None


def chk(i, bad):
    log(('chk', i))
    if i == bad:
        raise ValueError('chk%d' % i)
    return i


class CAw:
    def __init__(self, k):
        self.k = k

    def __await__(self):
        try:
            v = yield self.k
        finally:
            log(('caw-fin', self.k))
        return v


def csub(base):
    try:
        x = yield base
        log(('cs', x))
        try:
            y = yield base + 1
        except ValueError as e:
            log(('cs-caught', e.args))
            y = yield base + 2
        return (x, y)
    finally:
        log('cs-fin')


def csub_ignore(base):
    try:
        yield base
    except GeneratorExit:
        log('csi-ge')
        yield base + 1
    except ValueError:
        yield base + 2
        raise
    yield base + 3


def csub_ret(base):
    log('csr')
    return base
    yield


async def ccoro(k):
    try:
        v = await CAw(k)
    finally:
        log(('cc-fin', k))
    return ('cc', v)


async def cagen(base):
    try:
        x = yield base
        await CAw(base + 1)
        yield (base + 3, x)
    finally:
        log(('cagen-fin', base))

'''

PRESET = {k: k for k in ['CM', 'PlainIter', 'ThrowRaises', 'CloseRaises', 'SendIter', 'pysub', 'pysub_ignore',
                         'pysub_ret', 'PyAw', 'ItAw', 'pycoro', 'tcoro', 'ACM', 'AIter', 'pyagen', 'MyErr', 'MyBase']}
PRESET['HOLD'] = 'Holder()'

EXC_CLAUSES = ['ValueError', 'MyErr', 'Exception', 'BaseException', 'GeneratorExit', 'StopIteration',
               '(ValueError, KeyError)', '', 'MyBase', 'RuntimeError']
RAISES = ["ValueError('r%d')", "MyErr('r%d')", "StopIteration(%d)", "KeyError('r%d')", "MyBase(%d)", "GeneratorExit(%d)"]
GEN_DELEG = ['csub(%d)', 'pysub(%d)', 'PlainIter(%d, 2)', 'ThrowRaises(%d, 2)', 'CloseRaises(%d, 2)', 'SendIter(%d, 2)',
             'csub_ignore(%d)', 'pysub_ignore(%d)', 'csub_ret(%d)', 'pysub_ret(%d)', '[%d, %d + 1]', 'iter((%d,))',
             '(chk(i_, 1) + %d for i_ in range(3))']
CORO_AWAIT = ['PyAw(%d)', 'CAw(%d)', 'ItAw(%d)', 'pycoro(%d)', 'ccoro(%d)', 'tcoro(%d)']


class BodyGen:
    def __init__(self, rng, kind, name, idbase, max_depth=3):
        self.rng = rng
        self.kind = kind            # gen | coro | agen
        self.name = name
        self.nid = idbase
        self.ctx = {}
        self.max_depth = max_depth
        self.stack = []             # lexical contexts
        self.nsusp = 0
        self.nloopvar = 0
        self.feat = set()
        self.deleg = {}             # suspension id -> delegate / awaitable expression kind

    def newid(self):
        self.nid += 1
        return self.nid

    def cur_ctx(self):
        inner = 'plain'
        for c in reversed(self.stack):
            if c in ('try', 'tryfin', 'except', 'finally', 'with'):
                inner = c
                break
        # '+x' / '+f': additionally (not innermost) inside an except handler / a finally clause
        if inner != 'except' and 'except' in self.stack:
            inner += '+x'
        if inner != 'finally' and 'finally' in self.stack:
            inner += '+f'
        return inner

    # ------------------------------------------------------------ suspension points
    def suspend(self, ind):
        rng = self.rng
        self.nsusp += 1
        yid = self.newid()
        self.ctx[yid] = self.cur_ctx()
        self.feat.add('susp-' + self.cur_ctx())
        val = rng.choice(['%d' % yid, '(%d, acc)' % yid, '(%d, v)' % yid])
        if self.kind == 'gen':
            r = rng.random()
            if r < 0.22:
                d = rng.choice(GEN_DELEG)
                base = 1000 + 10 * yid
                self.deleg[yid] = d.split('(')[0] if not d.startswith(('[', '(', 'iter')) else \
                    {'[': 'list', '(': 'genexpr', 'i': 'tuple_iter'}[d[0]]
                self.ctx[yid] += '|d=' + self.deleg[yid]
                self.feat.add('deleg:' + self.deleg[yid])
                lines = ['v = yield from ' + (d % ((base,) * d.count('%d')))]
            elif r < 0.35:
                lines = ['yield ' + val]
            else:
                lines = ['v = yield ' + val]
        elif self.kind == 'coro':
            a = rng.choice(CORO_AWAIT)
            self.feat.add('await:' + a.split('(')[0])
            self.deleg[yid] = a.split('(')[0]
            self.ctx[yid] += '|d=' + self.deleg[yid]
            lines = ['v = await ' + (a % (1000 + 10 * yid))]
        else:
            r = rng.random()
            if r < 0.3:
                a = rng.choice(CORO_AWAIT)
                self.feat.add('await:' + a.split('(')[0])
                self.deleg[yid] = a.split('(')[0]
                self.ctx[yid] += '|d=' + self.deleg[yid]
                lines = ['v = await ' + (a % (1000 + 10 * yid))]
            elif r < 0.4:
                lines = ['yield ' + val]
            else:
                lines = ['v = yield ' + val]
        if rng.random() < 0.5:
            lines.append("log(('v', v))")
        c = self.cur_ctx()
        if (c.startswith(('except', 'finally')) or '+x' in c or '+f' in c) and rng.random() < 0.6:
            # resumed inside a handler: the exception being handled must still be there
            lines.append("log(('ei', type(sys.exc_info()[1]).__name__))")
        lines.append('acc += 1')
        return [ind + ln for ln in lines]

    # ------------------------------------------------------------ statements
    def block(self, ind, depth, nmin=1, nmax=3, must_suspend=False):
        rng = self.rng
        out = []
        n = rng.randint(nmin, nmax)
        for i in range(n):
            out += self.stmt(ind, depth)
            if out and out[-1].strip().startswith(('return', 'raise', 'break', 'continue')):
                break
        if must_suspend and not any(('yield' in ln or 'await' in ln) for ln in out):
            out = self.suspend(ind) + out
        if not out:
            out = [ind + 'pass']
        return out

    def stmt(self, ind, depth):
        rng = self.rng
        deep = depth >= self.max_depth
        kinds = [('susp', 30), ('log', 8), ('ei', 6), ('raise', 5), ('ret', 3), ('reent', 5 if self.kind != 'agen' else 0),
                 ('ifv', 8)]
        if not deep:
            kinds += [('for', 8), ('while', 6), ('tryexc', 18), ('tryfin', 14), ('with', 8)]
            if self.kind in ('coro', 'agen'):
                kinds += [('awith', 5), ('afor', 5)]
        if 'loop' in self.stack and 'finally' != (self.stack[-1] if self.stack else None):
            kinds += [('brk', 4)]
        if 'except' in self.stack:
            kinds += [('bare', 6)]
        tot = sum(w for _, w in kinds)
        r = rng.random() * tot
        for k, w in kinds:
            r -= w
            if r < 0:
                break
        i2 = ind + '    '
        if k == 'susp':
            return self.suspend(ind)
        if k == 'log':
            return [ind + "log('p%d')" % self.newid()]
        if k == 'ei':
            self.feat.add('exc_info')
            return [ind + "log(('ei', type(sys.exc_info()[1]).__name__))"]
        if k == 'raise':
            self.feat.add('raise')
            e = rng.choice(RAISES) % self.newid()
            if rng.random() < 0.3:
                return [ind + "if v == 'x':", i2 + 'raise ' + e]
            if 'except' in self.stack and rng.random() < 0.4:
                self.feat.add('raise-from')
                return [ind + 'raise %s from %s' % (e, rng.choice(['None', 'e', "KeyError('c')"]))] if self._has_e() else \
                    [ind + 'raise %s from None' % e]
            return [ind + 'raise ' + e]
        if k == 'ret':
            self.feat.add('return')
            pre = [ind + "if v == 'b':"] if rng.random() < 0.6 else []
            i = i2 if pre else ind
            if self.kind == 'agen':
                return pre + [i + 'return']
            if 'except' in self.stack or 'finally' in self.stack:
                self.feat.add('return-value-in-handler')
            return pre + [i + 'return (%d, acc)' % self.newid()]
        if k == 'bare':
            self.feat.add('bare-raise')
            return [ind + 'raise']
        if k == 'brk':
            w = rng.choice(['break', 'continue'])
            self.feat.add(w)
            return [ind + "if v == %s:" % rng.choice(["'b'", '1', 'None']), i2 + w]
        if k == 'reent':
            self.feat.add('reentrant')
            op, call = rng.choice([('next', 'next(HOLD.g)'), ('send', 'HOLD.g.send(None)'), ('throw', 'HOLD.g.throw(ValueError)'),
                                   ('close', 'HOLD.g.close()'), ('running', 'HOLD.g.gi_running' if self.kind == 'gen'
                                                                 else 'HOLD.g.cr_running')])
            if self.kind == 'coro' and op == 'next':
                op, call = 'send', 'HOLD.g.send(None)'
            # (message text only for the protocol's own ValueError; during abandonment HOLD.g is None and the wording of
            # the resulting TypeError is not the generator protocol's business)
            return [ind + 'try:', i2 + "log(('re', '%s', 'ok', %s))" % (op, call),
                    ind + 'except BaseException as re_:',
                    i2 + "log(('re', '%s', type(re_).__name__, re_.args if isinstance(re_, ValueError) else ()))" % op]
        if k == 'ifv':
            cond = rng.choice(["v == 1", "v is None", "v == 'b'", "v == 'x'", 'acc % 2'])
            out = [ind + 'if %s:' % cond] + self.block(i2, depth + 1, 1, 2)
            if rng.random() < 0.4:
                out += [ind + 'else:'] + self.block(i2, depth + 1, 1, 2)
            return out
        if k == 'for':
            self.nloopvar += 1
            var = 'i%d' % self.nloopvar
            self.stack.append('loop')
            body = self.block(i2, depth + 1, 1, 3, must_suspend=True)
            self.stack.pop()
            out = [ind + 'for %s in range(%d):' % (var, rng.randint(2, 3))] + body
            if rng.random() < 0.25:
                out += [ind + 'else:', i2 + "log('for-else%d')" % self.newid()]
            self.feat.add('for')
            return out
        if k == 'while':
            self.nloopvar += 1
            var = 'w%d' % self.nloopvar
            self.stack.append('loop')
            body = self.block(i2, depth + 1, 1, 3, must_suspend=True)
            self.stack.pop()
            self.feat.add('while')
            return [ind + '%s = 0' % var, ind + 'while %s < %d:' % (var, rng.randint(2, 3)), i2 + '%s += 1' % var] + body
        if k == 'tryexc':
            self.feat.add('try-except')
            self.stack.append('try')
            body = self.block(i2, depth + 1, 1, 3, must_suspend=rng.random() < 0.85)
            self.stack.pop()
            out = [ind + 'try:'] + body
            ncl = rng.choice([1, 1, 1, 2])
            used = set()
            clauses = []
            for _ in range(ncl):
                c = rng.choice(EXC_CLAUSES)
                if c in used:
                    continue
                used.add(c)
                clauses.append(c)
            # a bare / BaseException clause must come last
            clauses.sort(key=lambda c: (c == '', c == 'BaseException'))
            if '' in clauses and 'BaseException' in clauses:
                clauses.remove('BaseException')
            for c in clauses:
                named = c != '' and rng.random() < 0.7
                out.append(ind + ('except %s%s:' % (c, ' as e' if named else '') if c else 'except:'))
                self.stack.append('except-e' if named else 'except-n')
                self.stack.append('except')
                hb = [i2 + "log(('caught', type(sys.exc_info()[1]).__name__, sys.exc_info()[1].args, "
                      "type(sys.exc_info()[1].__context__).__name__))"]
                hb += self.block(i2, depth + 1, 1, 3, must_suspend=rng.random() < 0.6)
                self.stack.pop()
                self.stack.pop()
                out += hb
            if rng.random() < 0.25:
                self.feat.add('try-else')
                out += [ind + 'else:'] + self.block(i2, depth + 1, 1, 2)
            if rng.random() < 0.2:
                self.feat.add('try-except-finally')
                self.stack.append('finally')
                out += [ind + 'finally:', i2 + "log('fin%d')" % self.newid()] + \
                    (self.block(i2, depth + 1, 1, 1) if rng.random() < 0.4 else [])
                self.stack.pop()
            return out
        if k == 'tryfin':
            self.feat.add('try-finally')
            self.stack.append('tryfin')
            body = self.block(i2, depth + 1, 1, 3, must_suspend=rng.random() < 0.85)
            self.stack.pop()
            out = [ind + 'try:'] + body + [ind + 'finally:', i2 + "log(('fin%d', type(sys.exc_info()[1]).__name__))" % self.newid()]
            self.stack.append('finally')
            r = rng.random()
            if r < 0.35:
                self.feat.add('suspend-in-finally')
                out += self.suspend(i2)
            elif r < 0.45 and self.kind != 'agen':
                self.feat.add('return-in-finally')
                self.feat.add('return-value-in-handler')
                out += [i2 + 'return %d' % self.newid()]
            elif r < 0.55:
                out += self.block(i2, depth + 1, 1, 2)
            self.stack.pop()
            return out
        if k == 'with':
            self.feat.add('with')
            self.stack.append('with')
            body = self.block(i2, depth + 1, 1, 3, must_suspend=rng.random() < 0.85)
            self.stack.pop()
            args = '%d' % self.newid()
            r = rng.random()
            if r < 0.3:
                args += ', suppress=True'
                self.feat.add('with-suppress')
            elif r < 0.4:
                args += ', bad_exit=True'
            return [ind + 'with CM(%s):' % args] + body
        if k == 'awith':
            self.feat.add('async-with')
            yid = self.newid()
            self.newid(); self.newid()
            self.stack.append('with')
            body = self.block(i2, depth + 1, 1, 2, must_suspend=True)
            self.stack.pop()
            return [ind + 'async with ACM(%d%s):' % (1000 + 10 * yid, ', suppress=True' if rng.random() < 0.3 else '')] + body
        if k == 'afor':
            self.feat.add('async-for')
            yid = self.newid()
            self.nloopvar += 1
            src = rng.choice(['AIter(%d, 2)', 'pyagen(%d)', 'cagen(%d)']) % (1000 + 10 * yid)
            self.stack.append('loop')
            body = self.block(i2, depth + 1, 1, 2)
            self.stack.pop()
            return [ind + 'async for a%d in %s:' % (self.nloopvar, src), i2 + "log(('afor', a%d))" % self.nloopvar] + body
        raise AssertionError(k)

    def _has_e(self):
        # the innermost enclosing handler binds `e`
        for c in reversed(self.stack):
            if c == 'except-e':
                return True
            if c == 'except-n':
                return False
        return False

    def function(self):
        head = {'gen': 'def', 'coro': 'async def', 'agen': 'async def'}[self.kind]
        lines = ['%s %s():' % (head, self.name), '    v = None', '    acc = 0']
        body = self.block('    ', 0, 2, 5, must_suspend=True)
        if self.kind == 'agen' and not any(ln.strip().startswith(('yield', 'v = yield')) for ln in body):
            body = ['    v = yield %d' % self.newid()] + body
            self.ctx[self.nid] = 'plain'
        lines += body
        return '\n'.join(lines) + '\n'


GENEXPRS = [
    'return (chk(i_, %(bad)d) for i_ in range(%(n)d))',
    'return (x_ for x_ in (chk(j_, %(bad)d) for j_ in range(%(n)d)) if x_ != 1)',
    'return ((i_, j_) for i_ in range(2) for j_ in range(chk(i_, %(bad)d) + 1))',
    'return (log(i_) for i_ in iter(PlainIter(0, %(n)d)))',
]


def gen_module(rng, nbodies, kinds=('gen', 'gen', 'gen', 'coro', 'agen', 'genexpr'), start=0):
    """-> (source, [ {name, kind, src, feat} ])"""
    parts = [HEADER]
    ctx = {}
    bodies = []
    for i in range(nbodies):
        kind = kinds[i % len(kinds)]
        name = 'gz%dz' % (start + i)
        if kind == 'genexpr':
            t = rng.choice(GENEXPRS) % {'bad': rng.choice([1, 2, 9]), 'n': rng.randint(2, 4)}
            src = 'def %s():\n    %s\n' % (name, t)
            bodies.append({'name': name, 'kind': 'genexpr', 'src': src, 'feat': ['genexpr'], 'nsusp': 2})
            parts.append(src)
            continue
        for attempt in range(20):
            bg = BodyGen(rng, kind, name, 10 * (attempt + 1) * 0 + 0)
            src = bg.function()
            if 1 <= bg.nsusp <= 9 and len(src.splitlines()) <= 70:
                break
        try:
            compile(src, name, 'exec')
        except SyntaxError:
            # e.g. 'continue'/'break' placement the grammar does not allow: fall back to a plain body
            bg = BodyGen(rng, kind, name, 0, max_depth=1)
            src = bg.function()
            compile(src, name, 'exec')
        ctx.update({})
        bodies.append({'name': name, 'kind': kind, 'src': src, 'feat': sorted(bg.feat), 'nsusp': bg.nsusp, 'ctx': bg.ctx,
                       'deleg': bg.deleg})
        parts.append(src)
    # per-body CTX tables (ids are only unique within one body)
    parts.append('CTXS = {%s}\n' % ', '.join('%r: %r' % (b['name'], b.get('ctx', {})) for b in bodies))
    return '\n\n'.join(parts), bodies


# ------------------------------------------------------------------------------------- histories
GEN_OPS = ['next'] * 8 + ['send:1', 'send:N', 'send:b', 'send:x'] * 2 + \
    ['throw:V', 'throw:Vi', 'throw:GE', 'throw:SI', 'throw:SIi', 'throw:MB', 'throw:ME', 'throw:KE', 'throw:2arg',
     'throw:GEi', 'close', 'close', 'del']
CORO_OPS = ['send:N'] * 8 + ['send:1', 'send:b', 'send:x'] * 2 + \
    ['throw:V', 'throw:Vi', 'throw:GE', 'throw:SI', 'throw:MB', 'throw:ME', 'throw:KE', 'close', 'close', 'del']
AGEN_OPS = ['anext'] * 5 + ['asend:N', 'asend:1', 'asend:b', 'asend:x'] * 2 + \
    ['athrow:V', 'athrow:Vi', 'athrow:GE', 'athrow:ME', 'athrow:SAI', 'athrow:MB', 'aclose', 'aclose', 'del']
EXH_GEN = ['next', 'send:1', 'throw:V', 'throw:GE', 'throw:SI', 'close', 'throw:ME']
EXH_CORO = ['send:N', 'send:1', 'throw:V', 'throw:GE', 'throw:ME', 'close', 'throw:MB']
EXH_AGEN = ['anext', 'asend:1', 'athrow:V', 'athrow:GE', 'aclose', 'athrow:ME', 'asend:b']


def random_history(rng, kind, maxlen=8):
    n = rng.randint(1, maxlen)
    ops = {'gen': GEN_OPS, 'genexpr': GEN_OPS, 'coro': CORO_OPS, 'agen': AGEN_OPS}[kind]
    h = []
    # bias: most histories start the object properly so that later operations arrive in interesting states
    for i in range(n):
        if i == 0 and rng.random() < 0.7:
            op = {'gen': 'next', 'genexpr': 'next', 'coro': 'send:N', 'agen': 'anext'}[kind]
        else:
            op = rng.choice(ops)
        if kind == 'agen' and op != 'del' and rng.random() < 0.06:
            op += '/t'
        if op != 'del' and rng.random() < 0.12:
            op = 'H!' + op
        h.append(op)
        if op == 'del':
            break
    return h


def exhaustive_histories(kind, maxlen):
    ops = {'gen': EXH_GEN, 'genexpr': EXH_GEN, 'coro': EXH_CORO, 'agen': EXH_AGEN}[kind]
    out = []
    cur = [[]]
    for n in range(maxlen):
        cur = [h + [o] for h in cur for o in ops]
        out += cur
    return out
