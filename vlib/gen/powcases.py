"""Driver-side helpers of the C07 check (power operator): normalised observation of `(typeof, value)` results.

A compiled function returns `(cython.typeof(a ** b), a ** b)`; its reference model returns `('=', expected value)`.
`powcall` turns either into a text: the type part becomes '=' when the observed C type satisfies the expectation of
the cpow table row recorded in META[fname], the value part is type-qualified repr.  Cases whose value the property
does not constrain (C integer result that does not fit / negative exponent with an integer result type / operand
types whose values belong to C08) are still *executed* but their value is replaced by 'unconstrained'.
"""
from vlib.gen.numblocks import POOLS

__all__ = ['powcall', 'powmany', 'set_meta', 'META']

META = {}

CINT_RANGES = {
    'char': (-128, 127), 'signed char': (-128, 127), 'unsigned char': (0, 255), 'short': (-2 ** 15, 2 ** 15 - 1),
    'unsigned short': (0, 2 ** 16 - 1), 'int': (-2 ** 31, 2 ** 31 - 1), 'unsigned int': (0, 2 ** 32 - 1),
    'long': (-2 ** 63, 2 ** 63 - 1), 'unsigned long': (0, 2 ** 64 - 1), 'long long': (-2 ** 63, 2 ** 63 - 1),
    'unsigned long long': (0, 2 ** 64 - 1), 'Py_ssize_t': (-2 ** 63, 2 ** 63 - 1), 'size_t': (0, 2 ** 64 - 1),
}
FLOATING = ('float', 'double', 'long double')
COMPLEXISH = ('soft double complex', 'double complex', 'float complex', 'long double complex')


def set_meta(m):
    META.update(m)


def type_ok(expect, t):
    if expect == 'double':
        return t == 'double'
    if expect == 'integer':
        return t in CINT_RANGES
    if expect == 'floating':
        return t in FLOATING
    if expect == 'real-or-complex':
        return t in FLOATING or t in COMPLEXISH
    if expect == 'complex':
        return t in COMPLEXISH
    if expect == 'object':
        return t == 'Python object'
    return False


def type_class(t):
    if t in CINT_RANGES:
        return 'integer'
    if t in FLOATING:
        return 'floating'
    if t in COMPLEXISH:
        return 'complex'
    return t.replace(' ', '-')


def unconstrained(meta, args):
    """True when the property does not fix the value of this call"""
    if meta.get('value') == 'none':
        return True
    if meta['expect'] == 'integer':
        a = args[0]
        b = meta['const'] if meta.get('const') is not None else args[1]
        if b < 0:
            return True
        lo, hi = CINT_RANGES.get(meta.get('ctype') or 'long', (-2 ** 63, 2 ** 63 - 1))
        if abs(a) > 1 and b * (abs(a).bit_length() - 1) > 70:
            return True
        return not (lo <= a ** b <= hi)
    return False


def powcall(M, fname, args):
    meta = META[fname]
    try:
        r = getattr(M, fname)(*args)
    except Exception as e:
        out = '! ' + type(e).__name__
    else:
        t, v = r
        tt = '=' if (t == '=' or type_ok(meta['expect'], t)) else 'type:' + str(t).replace(' ', '~')
        if unconstrained(meta, args):
            out = tt + ' unconstrained'
        else:
            out = '%s %s %r' % (tt, type(v).__name__, v)
    return out


def powmany(M, fname, pool, i, j):
    return '\n'.join([powcall(M, fname, a) for a in POOLS[pool][i:j]])
