"""Call-site templates for C13 (builtin call and method optimisations preserve semantics).

A spec describes one optimised call shape: the expression (receiver `x`, arguments `a`, `b`, `c`), the receiver type for
the annotated typing, a literal receiver for the known-type typing, value pools per argument role and the C helper /
C-API call the optimisation is expected to produce (the reach table).  Each spec is instantiated in up to three
receiver typings: untyped (`def f(x, a)`), annotated (`def f(list x, a)`) and literal / known type
(`x = [1, 2, 3]` inside the function).  The reference is the same text with the type annotations removed."""
import itertools
import re

HEADER = 'log = None\n'

# --------------------------------------------------------------------------------------------- value pools (expressions)
OBJ = ['None', '1', "'a'", '(1, 2)', '[1]', '2.5', 'I(5)', "S('ab')", "b'x'", 'UH()', 'True', '0']
KEY = ['1', "'a'", '(1, 2)', 'None', '2.5', 'I(1)', "S('a')", '[1]', 'UH()', 'HashRaises()', 'EqRaises(1)', '1.0',
       'True', '99', "'zz'", '(1, [2])', '{}']
INDEX = ['0', '1', '-1', '2', '5', '-5', '2**31', '-2**31-1', '2**63-1', '2**63', '-2**63', '-2**63-1', '2**64', '-2**64',
         'None', 'Idx(1)', 'I(1)', 'True', '1.0', 'IntOnly(1)', "'a'", 'IdxRaises()', 'Idx(-1)', 'Idx(2**70)', 'IdxBad()', '3']
SMALLIDX = ['0', '1', '-1', '2', '3', '-3', '7', '-7', 'None', 'Idx(1)', 'I(1)', 'True', '1.0', "'a'", '2**63', '-2**63-1']
STRS = ["''", "'a'", "'ab'", "'b'", "'h'", "'world'", "' '", "'\\xe9'", "'\\u20ac'", "'\\U0001f600'", "S('ab')", "S('h')",
        'None', "b'a'", '1', "('a', 'x')", "('x', 'y')", "('h', 'w')", '()', "('a', 1)", "['a']", "'l'", "'\\n'", "('', )"]
BYTESARG = ["b''", "b'a'", "b'ab'", "b'h'", "b'world'", "b' '", "b'\\xff'", "B(b'ab')", "bytearray(b'a')", 'None', "'a'", '1',
            "(b'a', b'x')", "(b'h', b'w')", '()', "(b'a', 1)", "[b'a']", '97', "memoryview(b'ab')"]
ITER = ['[]', '[1, 2]', '(1, 2)', "'ab'", 'gen_list(3)', 'None', '5', 'IterRaises(1)', '{1: 2}', '{3, 4}', "['a', 'b']", "('x',)",
        'L([1, 2])', "[b'a']", "[[1], [2]]", 'range(3)', "{'k': 'v'}", "[(1, 2), (3, 4)]", "[(1, 2, 3)]", 'T((1, 2))',
        "S('ab')", '[3, 1, 2]', "[1, 'a']", '[2.5, 1, True]', '[Unhashable()]', 'D({1: 2})', 'St({1})']
STRITER = ['[]', "['a', 'b']", "('x',)", "'ab'", 'gen_strs()', 'None', '5', "['a', 1]", "[b'a']", "{'k': 'v'}", "['a', None]",
           "[S('x'), 'y']", 'IterRaises(1)', "['\\xe9', '\\u20ac']", "L(['p', 'q'])", "T(('p', 'q'))", "['only']", "iter(['i', 'j'])"]
BYTESITER = ['[]', "[b'a', b'b']", "(b'x',)", "b'ab'", 'None', '5', "[b'a', 1]", "['a']", "[B(b'x'), b'y']", "[bytearray(b'q'), b'r']",
             'IterRaises(1)', "L([b'p', b'q'])", "[memoryview(b'm'), b'n']", "[b'only']"]
BYTEVAL = ['0', '97', '255', '256', '-1', 'None', "'a'", "b'a'", '1.0', 'I(98)', 'Idx(99)', 'True', '2**63', 'IntOnly(5)', "b'ab'",
           "'\\xe9'", "b''"]
ORDARG = ["'a'", "'\\xe9'", "'\\u20ac'", "'\\U0001f600'", "'ab'", "''", "b'a'", "b'ab'", "b''", "bytearray(b'a')", "bytearray(b'ab')",
          'None', '1', "S('a')", "B(b'a')", "('a',)", "'\\ud800'"]
CHRARG = ['0', '97', '233', '8364', '128512', '1114111', '1114112', '-1', '2**31', '2**63', '-2**63-1', 'None', "'a'", '2.5',
          'I(97)', 'Idx(97)', 'True', 'IntOnly(97)', '97.0', '55296']
NUMS = ['0', '1', '-1', '2**31', '-2**63', '2**63', '2**64 + 1', '1.5', '-0.0', 'inf', 'nan', 'True', 'I(5)', 'F(2.5)', 'None', "'a'",
        '1+2j', 'Obj(1)', '-2.5', '10**30']
INTARG = ['0', '7', '-7', '2**70', '1.9', '-1.9', 'inf', 'nan', '1e30', "'12'", "' 12 '", "'-0x1f'", "'0x1f'", "'1_0'", "'abc'", "''",
          "b'34'", "bytearray(b'56')", "'\\u0661\\u0662'", 'None', 'True', 'I(5)', 'F(2.5)', 'IntOnly(3)', 'Idx(4)', 'FloatLike(2.5)',
          '1+2j', "S('8')", "'12.5'", "b'1 2'", "memoryview(b'78')"]
FLOATARG = ['0', '7', '2**70', '10**400', '1.5', '-0.0', 'inf', 'nan', "'1.5'", "' 1.5 '", "'inf'", "'-Infinity'", "'nan'", "'1e3'",
            "'1_0.5'", "'abc'", "''", "b'2.5'", "bytearray(b'3.5')", "'\\u0661.5'", 'None', 'True', 'I(5)', 'F(2.5)', 'IntOnly(3)', 'Idx(4)',
            'FloatLike(2.5)', '1+2j', "S('8.5')", "'1e'", "'.5'", "'5.'", "'+.5e-3'", "'1__0'", "' nan '", "'infinity'", "'in'", "b'nan'",
            "'1.5\\x00'", "'0x10'"]
BOOLARG = ['0', '1', "''", "'a'", '[]', '[0]', 'None', '0.0', 'nan', '2**64', '()', '{}', 'Obj(1)', 'LenRaises()', 'BoolRaises()', 'Len0()',
           'I(0)', 'F(0.0)', "b''", 'set()', 'range(0)', 'LGet([])']
TYPES = ['int', 'str', 'list', '(int, str)', '(list, tuple)', 'I', 'object', 'type', '()', '5', 'None', '(int, 5)', 'L', 'bool', 'float',
         '(int, (str, bytes))', 'Obj']
ENCODINGS = ["'utf-8'", "'utf8'", "'UTF-8'", "'ascii'", "'latin-1'", "'latin1'", "'iso-8859-1'", "'utf-16'", "'utf-16-le'", "'utf-32'",
             "'cp1252'", "'nope'", 'None', '1', "S('utf-8')", "'idna'", "'utf_8'", "'U8'"]
ERRORS = ["'strict'", "'ignore'", "'replace'", "'backslashreplace'", "'surrogateescape'", "'nope'", 'None', '1', "'xmlcharrefreplace'",
          "'surrogatepass'"]
BOOLISH = ['True', 'False', '0', '1', 'None', "'a'", '[]', '2', 'BoolRaises()']
MAXSPLIT = ['-1', '0', '1', '2', '100', 'None', "'a'", '1.0', '2**63', 'Idx(1)', 'True']
CALLKEY = ['None', 'len', 'str', 'lambda v: -v', 'lambda v: 1 // 0', '5', 'abs']

LISTS = ['[]', '[1, 2, 3]', "['a', 'b', 'a']", '[3, 1, 2]', "[1, 'a']", '[[1], [2]]', 'list(range(6))', '[2.5, 1, True]', '[None]']
LISTS_X = ['L([1, 2, 3])', 'LGet([1, 2])', '(1, 2)', 'Obj(1)', 'Appender()', 'None', "bytearray(b'ab')", '{1, 2}', '{1: 2}', "'ab'", 'mkmutlist()']
TUPLES = ['()', '(1, 2, 3)', "('a', 'b', 'a')", '((1,), 2)']
DICTS = ['{}', "{1: 'one', 'a': 2, (1, 2): 3}", '{1: 1, 2: 2, 3: 3}', "{'a': None}", '{1.0: 2}', '{None: 0, True: 1}',
         '{EqRaises(1): 1}', "{'zz': [1]}"]
DICTS_X = ["D({1: 'a'})", "DGet({1: 'a'})", "DMissing({1: 'a'})", "OD([(1, 'a')])", "MP({1: 'a'})", 'None', '[1, 2]', 'Obj(1)',
           'mkmutdict()', "DD()"]
SETS = ['set()', '{1, 2, 3}', "{'a', (1, 2)}", '{None, 1.0}', '{EqRaises(1)}', 'set(range(8))']
SETS_X = ['St({1, 2})', 'frozenset({1})', 'None', '[1, 2]', '{1: 2}', 'Obj(1)', 'StAdd({1})']
FSETS = ['frozenset()', 'frozenset({1, 2})']
STRS_R = ["''", "'abc'", "'hello world'", "'a\\xe9b'", "'x\\u20acy\\u20ac'", "'\\U0001f600ab'", "'line1\\nline2\\r\\nl3'", "' a b  c '",
          "'ABC def'", "'aaa'", "'h'"]
STRS_X = ["S('hello')", "SUp('abc')", "b'abc'", 'None', '5', "['a']"]
BYTES_R = ["b''", "b'abc'", "b'hello world'", "b'\\xff\\xfe'", "b'caf\\xc3\\xa9'", "b'aaa'", "b'h'", "b'\\xe9'", "b'a\\x00b'"]
BYTES_X = ["B(b'hello')", "bytearray(b'hello')", "'abc'", 'None', '5', "memoryview(b'hello')"]
BAS = ["bytearray(b'')", "bytearray(b'abc')", "bytearray(b'hello world')"]
BAS_X = ["BA(b'ab')", "b'abc'", 'None', '[1]', 'Appender()']
UCHARS = ["'a'", "'A'", "'1'", "' '", "'\\xe9'", "'\\u20ac'", "'\\U0001f600'", "'\\u0661'", "'\\u00b2'", "'\\x00'", "'\\n'", "'\\u01c5'",
          "'\\u2167'", "'_'", "'\\u3000'", "'\\xdf'", "'\\u0130'"]
ANYRECV = LISTS[:4] + TUPLES[:2] + DICTS[:3] + SETS[:2] + STRS_R[:3] + BYTES_R[:3] + BAS[:2] + \
    ['None', '5', 'Obj(1)', 'LGet([1, 2])', 'LenRaises()', 'LenNeg()', 'LenBig()', 'range(5)', 'D({1: 2})', "S('ab')", 'gen_list(2)',
     'frozenset({1})', "memoryview(b'ab')", 'LenIdx()']

POOLS = dict(obj=OBJ, key=KEY, index=INDEX, smallidx=SMALLIDX, strs=STRS, bytesarg=BYTESARG, iter=ITER, striter=STRITER,
             bytesiter=BYTESITER, byteval=BYTEVAL, ordarg=ORDARG, chrarg=CHRARG, nums=NUMS, intarg=INTARG, floatarg=FLOATARG,
             boolarg=BOOLARG, types=TYPES, enc=ENCODINGS, errors=ERRORS, boolish=BOOLISH, maxsplit=MAXSPLIT, callkey=CALLKEY,
             uchars=UCHARS)
RECV = {'list': (LISTS, LISTS_X), 'tuple': (TUPLES, ['T((1, 2))', '[1]', 'None']), 'dict': (DICTS, DICTS_X), 'set': (SETS, SETS_X),
        'frozenset': (FSETS, ['St({1})', 'None', '{1}']), 'str': (STRS_R, STRS_X), 'bytes': (BYTES_R, BYTES_X),
        'bytearray': (BAS, BAS_X), 'any': (ANYRECV, []), 'nums': (NUMS, []), 'intarg': (INTARG, []), 'floatarg': (FLOATARG, []),
        'boolarg': (BOOLARG, []), 'ordarg': (ORDARG, []), 'chrarg': (CHRARG, []), 'iter': (ITER, []), 'striter': (STRITER, []),
        'obj': (OBJ + ['Obj(1)', '[1, 2]', '{1: 2}', 'len', 'int'], []), 'uchar': (UCHARS, [])}

SETUP = r'''
from collections import OrderedDict as OD, defaultdict
from types import MappingProxyType as MP
class UH(Unhashable):
    """unhashable object with an address-free repr (results of str()/repr()/%s are compared)"""
    def __repr__(self): return 'UH()'
    def __vsig__(self): return 'UH'
class Appender:
    def __init__(self): self.items = []
    def append(self, x): self.items.append(('Appender.append', x)); return 'appended'
    def pop(self, *a): return ('Appender.pop', a)
    def extend(self, x): self.items.append(('Appender.extend', x)); return 'extended'
    def get(self, *a): return ('Appender.get', a)
    def __vsig__(self): return ('Appender', self.items)
class BA(bytearray):
    def append(self, x): bytearray.append(self, 33)
    def extend(self, x): bytearray.extend(self, b'!!')
class SUp(str):
    def startswith(self, *a): return ('SUp.startswith', a)
    def endswith(self, *a): return ('SUp.endswith', a)
    def find(self, *a): return ('SUp.find', a)
    def join(self, it): return ('SUp.join', list(it))
    def split(self, *a): return ('SUp.split', a)
    def encode(self, *a): return ('SUp.encode', a)
    def replace(self, *a): return ('SUp.replace', a)
    def __len__(self): return 99
class StAdd(set):
    def add(self, x): set.add(self, ('StAdd.add', x))
    def discard(self, x): return 'StAdd.discard'
    def remove(self, x): return 'StAdd.remove'
    def pop(self): return 'StAdd.pop'
    def clear(self): return 'StAdd.clear'
class LenRaises:
    def __len__(self): raise ZeroDivisionError('LenRaises')
    def __vsig__(self): return 'LenRaises'
class LenNeg:
    def __len__(self): return -1
    def __vsig__(self): return 'LenNeg'
class LenBig:
    def __len__(self): return 2 ** 63
    def __vsig__(self): return 'LenBig'
class LenIdx:
    def __len__(self): return I(3)
    def __vsig__(self): return 'LenIdx'
class Len0:
    def __len__(self): return 0
    def __vsig__(self): return 'Len0'
class BoolRaises:
    def __bool__(self): raise ZeroDivisionError('BoolRaises')
    def __vsig__(self): return 'BoolRaises'
class MutEq:
    """element / key whose comparison empties the container it lives in"""
    def __init__(self, h, target): self.h, self.target = h, target
    def __hash__(self): return self.h
    def __eq__(self, o):
        self.target.clear()
        return False
    def __vsig__(self): return ('MutEq', self.h)
def mkmutdict():
    d = {}
    d[MutEq(1, d)] = 'm'
    d[2] = 'two'
    return d
def mkmutlist():
    l = [5]
    l.append(MutEq(1, l))
    l.append(1)
    return l
def DD():
    d = defaultdict(list)
    d[1].append('x')
    return d
def gen_strs():
    yield 'g1'
    yield 'g2'
'''


class Spec:
    def __init__(self, name, expr, recv, roles=(), helper=None, lit=None, mutates=False, typed_only=False, decl=None,
                 untyped_helper=None, stmt=False, typings=None, recv_pool=None, decl_args=None, argnames=None, dense=False):
        self.decl_args, self.argnames, self.dense = decl_args, argnames, dense
        self.name, self.expr, self.recv, self.roles = name, expr, recv, list(roles)
        self.helper, self.untyped_helper = helper, untyped_helper
        self.lit, self.mutates, self.typed_only, self.decl = lit, mutates, typed_only, decl
        self.stmt = stmt                  # expr is a statement (result None)
        self.typings = typings
        self.recv_pool = recv_pool or recv


S = Spec
ARGN = ['a', 'b', 'c']

SPECS = [
    # ---------------------------------------------------------------- builtin functions
    S('len', 'len(x)', 'any', helper=r'PyObject_Length'),
    S('len-list', 'len(x)', 'list', helper=r'__Pyx_PyList_GET_SIZE', lit='[1, 2, 3]'),
    S('len-tuple', 'len(x)', 'tuple', helper=r'__Pyx_PyTuple_GET_SIZE', lit='(1, 2)'),
    S('len-dict', 'len(x)', 'dict', helper=r'PyDict_Size', lit='{1: 2}'),
    S('len-set', 'len(x)', 'set', helper=r'__Pyx_PySet_GET_SIZE', lit='{1, 2}'),
    S('len-str', 'len(x)', 'str', helper=r'__Pyx_PyUnicode_GET_LENGTH', lit="'ab\\u20ac'"),
    S('len-bytes', 'len(x)', 'bytes', helper=r'__Pyx_PyBytes_GET_SIZE', lit="b'ab'"),
    S('len-bytearray', 'len(x)', 'bytearray', helper=r'__Pyx_PyByteArray_GET_SIZE'),
    S('abs', 'abs(x)', 'nums', helper=r'__Pyx_PyNumber_Absolute'),
    S('abs-long', 'abs(x)', None, decl='long x', recv_pool=['0', '5', '-5', '2**63-1', '-2**63+1'], helper=r'labs|__Pyx_abs_long'),
    S('abs-double', 'abs(x)', None, decl='double x', recv_pool=['0.0', '-0.0', '2.5', '-2.5', 'inf', '-inf', 'nan'], helper=r'fabs'),
    S('abs-int', 'abs(x)', None, decl='int x', recv_pool=['0', '5', '-5', '2**31-1', '-2**31+1'], helper=r'abs|__Pyx_abs_int'),
    S('min2', 'min(x, a)', 'nums', ['nums'], helper=r'__Pyx_PyObject_CompareBool(?:Lt|Gt)'),
    S('max2', 'max(x, a)', 'nums', ['nums'], helper=r'__Pyx_PyObject_CompareBool(?:Lt|Gt)'),
    S('min3', 'min(x, a, b)', 'nums', ['nums', 'nums'], helper=r'__Pyx_PyObject_CompareBool(?:Lt|Gt)'),
    S('max3', 'max(x, a, b)', 'nums', ['nums', 'nums'], helper=r'__Pyx_PyObject_CompareBool(?:Lt|Gt)'),
    S('max4', 'max(x, a, b, 3)', 'nums', ['nums', 'nums'], helper=r'__Pyx_PyObject_CompareBool(?:Lt|Gt)'),
    S('min4', 'min(x, 2, a, b)', 'nums', ['nums', 'nums'], helper=r'__Pyx_PyObject_CompareBool(?:Lt|Gt)'),
    S('min2-log', 'min(log(x), log(a))', 'nums', ['nums'], helper=r'__Pyx_PyObject_CompareBool(?:Lt|Gt)'),
    S('max3-log', 'max(log(x), log(a), log(b))', 'nums', ['nums', 'nums'], helper=r'__Pyx_PyObject_CompareBool(?:Lt|Gt)'),
    S('max2-clong', 'max(x, a)', None, ['nums'], decl='long x', recv_pool=['0', '5', '-5', '2**63-1', '-2**63'], helper=r''),
    S('min-iter', 'min(x)', 'iter', helper=None),
    S('max-iter-default', 'max(x, default=a)', 'iter', ['obj'], helper=None),
    S('sum-genexpr', 'sum(v * 2 for v in x)', 'iter', helper=None),
    S('sum-genexpr-start', 'sum((v for v in x), a)', 'iter', ['nums'], helper=None),
    S('sum-list', 'sum(x)', 'iter', helper=None),
    S('any-genexpr', 'any(v for v in x)', 'iter', helper=r'__Pyx_Generator_GetInlinedResult'),
    S('all-genexpr', 'all(v for v in x)', 'iter', helper=r'__Pyx_Generator_GetInlinedResult'),
    S('any-genexpr-cond', 'any(v == a for v in x)', 'iter', ['obj'], helper=r'__Pyx_Generator_GetInlinedResult'),
    S('all-genexpr-log', 'all(log(v) for v in x)', 'iter', helper=r'__Pyx_Generator_GetInlinedResult'),
    S('sorted', 'sorted(x)', 'iter', helper=r'PyList_Sort'),
    S('sorted-genexpr', 'sorted(v for v in x)', 'iter', helper=r'PyList_Sort'),
    S('sorted-key', 'sorted(x, key=a)', 'iter', ['callkey'], helper=None),
    S('sorted-reverse', 'sorted(x, reverse=a)', 'iter', ['boolish'], helper=None),
    S('isinstance-int', 'isinstance(x, int)', 'obj', helper=r'PyLong_Check'),
    S('isinstance-list', 'isinstance(x, list)', 'obj', helper=r'PyList_Check'),
    S('isinstance-str', 'isinstance(x, str)', 'obj', helper=r'PyUnicode_Check'),
    S('isinstance-tuple2', 'isinstance(x, (int, str))', 'obj', helper=r'PyLong_Check|PyUnicode_Check'),
    S('isinstance-tuple3', 'isinstance(x, (list, tuple, dict))', 'obj', helper=r'PyList_Check|PyTuple_Check|PyDict_Check'),
    S('isinstance-bool-float', 'isinstance(x, (bool, float))', 'obj', helper=r'PyBool_Check|PyFloat_Check'),
    S('isinstance-rt', 'isinstance(x, a)', 'obj', ['types'], helper=r'PyObject_IsInstance'),
    S('issubclass-rt', 'issubclass(x, a)', 'obj', ['types'], recv_pool=['int', 'bool', 'I', 'str', '5', 'None', 'L'], helper=r'PyObject_IsSubclass'),
    S('ord', 'ord(x)', 'ordarg', helper=r'__Pyx_PyObject_Ord'),
    S('ord-str', 'ord(x)', 'str', helper=r'__Pyx_PyObject_Ord|__Pyx_PyUnicode_AsPy_UCS4', recv_pool=['ordstr']),
    S('ord-bytes', 'ord(x)', 'bytes', helper=r'__Pyx_PyObject_Ord', recv_pool=['ordbytes']),
    S('ord-uchar', 'ord(x)', None, decl='Py_UCS4 x', recv_pool=UCHARS, helper=r''),
    S('chr', 'chr(x)', 'chrarg', helper=r'PyUnicode_FromOrdinal'),
    S('chr-cint', 'chr(x)', None, decl='int x', recv_pool=['0', '97', '233', '8364', '128512', '1114111', '1114112', '-1', '55296'],
      helper=r'PyUnicode_FromOrdinal'),
    S('int', 'int(x)', 'intarg', helper=r'__Pyx_PyNumber_Int'),
    S('int-base', 'int(x, a)', 'intarg', ['smallidx'], helper=None),
    S('int-double', 'int(x)', None, decl='double x', recv_pool=['0.0', '-0.0', '2.5', '-2.5', '1e30', 'inf', 'nan', '-1e300'],
      helper=r'PyLong_FromDouble'),
    S('float', 'float(x)', 'floatarg', helper=r'__Pyx_PyObject_AsDouble|__Pyx_PyNumber_Float'),
    S('float-str', 'float(x)', 'str', helper=r'__Pyx_PyUnicode_AsDouble', recv_pool=['floatstr']),
    S('float-bytes', 'float(x)', 'bytes', helper=r'__Pyx_PyBytes_AsDouble', recv_pool=['floatbytes']),
    S('float-bytearray', 'float(x)', 'bytearray', helper=r'__Pyx_PyByteArray_AsDouble', recv_pool=['floatba']),
    S('float-add', 'float(x) + 1.5', 'floatarg', helper=r'__Pyx_PyObject_AsDouble'),
    S('bool', 'bool(x)', 'boolarg', helper=r'__Pyx_PyObject_IsTrue'),
    S('not', 'not x', 'boolarg', helper=r'__Pyx_PyObject_IsTrue'),
    S('str', 'str(x)', 'obj', helper=r'__Pyx_PyObject_Unicode|PyObject_Str'),
    S('str-str', 'str(x)', 'str', helper=r'__Pyx_PyUnicode_Unicode|__Pyx_PyObject_Unicode'),
    S('list', 'list(x)', 'iter', helper=r'PySequence_List|__Pyx_PySequence_ListKeepNew'),
    S('tuple', 'tuple(x)', 'iter', helper=r'__Pyx_PySequence_Tuple|PySequence_Tuple'),
    S('tuple-list', 'tuple(x)', 'list', helper=r'PyList_AsTuple', lit='[1, 2]'),
    S('set', 'set(x)', 'iter', helper=r'PySet_New'),
    S('frozenset', 'frozenset(x)', 'iter', helper=r'__Pyx_PyFrozenSet_New'),
    S('frozenset0', 'frozenset()', None, recv_pool=['0'], decl='x', helper=r''),
    S('dict', 'dict(x)', 'iter', helper=None),
    S('dict-dict', 'dict(x)', 'dict', helper=r'PyDict_Copy', lit='{1: 2}'),
    S('dict-kw', 'dict(p=x, q=a)', 'obj', ['obj'], helper=r'PyDict_SetItem|__Pyx_PyDict_NewPresized'),
    S('list-genexpr', 'list(v for v in x)', 'iter', helper=r'__Pyx_Generator_GetInlinedResult'),
    S('set-genexpr', 'set(v for v in x)', 'iter', helper=r'__Pyx_Generator_GetInlinedResult'),
    S('tuple-genexpr', 'tuple(v * 2 for v in x)', 'iter', helper=None),
    S('dict-genexpr', 'dict((v, v) for v in x)', 'iter', helper=r'__Pyx_Generator_GetInlinedResult'),
    S('bytes', 'bytes(x)', 'iter', helper=None),
    S('type', 'type(x)', 'obj', helper=r'Py_TYPE'),
    S('callable', 'callable(x)', 'obj', helper=r'__Pyx_PyCallable_Check'),
    S('hash', 'hash(x)', 'obj', helper=r'PyObject_Hash', recv_pool=['key']),
    S('repr', 'repr(x)', 'obj', helper=r'PyObject_Repr'),
    S('getattr2', 'getattr(x, a)', 'obj', ['attrname'], helper=r'__Pyx_GetAttr'),
    S('getattr3', 'getattr(x, a, b)', 'obj', ['attrname', 'obj'], helper=r'__Pyx_GetAttr3'),
    S('hasattr', 'hasattr(x, a)', 'obj', ['attrname'], helper=r'__Pyx_HasAttr'),
    S('divmod', 'divmod(x, a)', 'nums', ['nums'], helper=r'PyNumber_Divmod'),
    S('pow2', 'pow(x, a)', 'nums', ['smallnum'], helper=r'__Pyx_PyNumber_Power2|PyNumber_Power'),
    S('pow3', 'pow(x, a, b)', 'nums', ['smallnum', 'smallnum'], helper=r'PyNumber_Power'),
    S('bin', 'bin(x)', 'nums', helper=r'__Pyx_PyNumber_Bin|PyNumber_ToBase'),
    S('hex', 'hex(x)', 'nums', helper=r'__Pyx_PyNumber_Hex|PyNumber_ToBase'),
    S('oct', 'oct(x)', 'nums', helper=r'__Pyx_PyNumber_Oct|PyNumber_ToBase'),
    S('next1', 'next(x)', 'iter', helper=r'__Pyx_PyIter_Next', recv_pool=['iters']),
    S('next2', 'next(x, a)', 'iter', ['obj'], helper=r'__Pyx_PyIter_Next2', recv_pool=['iters']),
    S('iter1', 'list(iter(x))', 'iter', helper=r'PyObject_GetIter'),
    S('reversed-list', 'list(reversed(x))', 'iter', helper=None),
    # ---------------------------------------------------------------- dict methods
    S('dict.get1', 'x.get(a)', 'dict', ['key'], helper=r'__Pyx_PyDict_GetItemDefault', lit="{1: 'one', 'a': 2}"),
    S('dict.get2', 'x.get(a, b)', 'dict', ['key', 'obj'], helper=r'__Pyx_PyDict_GetItemDefault', lit="{1: 'one', 'a': 2}"),
    S('dict.pop1', 'x.pop(a)', 'dict', ['key'], helper=r'__Pyx_PyDict_Pop', lit="{1: 'one', 'a': 2}", mutates=True),
    S('dict.pop2', 'x.pop(a, b)', 'dict', ['key', 'obj'], helper=r'__Pyx_PyDict_Pop', lit="{1: 'one', 'a': 2}", mutates=True),
    S('dict.pop2-stmt', 'x.pop(a, None)', 'dict', ['key'], helper=r'__Pyx_PyDict_Pop', lit="{1: 'one', 'a': 2}", mutates=True, stmt=True),
    S('dict.setdefault1', 'x.setdefault(a)', 'dict', ['key'], helper=r'__Pyx_PyDict_SetDefault', lit="{1: 'one', 'a': 2}", mutates=True),
    S('dict.setdefault2', 'x.setdefault(a, b)', 'dict', ['key', 'obj'], helper=r'__Pyx_PyDict_SetDefault', lit="{1: 'one', 'a': 2}", mutates=True),
    S('dict.keys', 'list(x.keys())', 'dict', helper=r'__Pyx_PyDict_Keys', lit="{1: 'one', 'a': 2}"),
    S('dict.values', 'list(x.values())', 'dict', helper=r'__Pyx_PyDict_Values', lit="{1: 'one', 'a': 2}"),
    S('dict.items', 'list(x.items())', 'dict', helper=r'__Pyx_PyDict_Items', lit="{1: 'one', 'a': 2}"),
    S('dict.keys-type', 'type(x.keys()).__name__', 'dict', helper=r'__Pyx_PyDict_Keys'),
    S('dict.clear', 'x.clear()', 'dict', helper=r'__Pyx_PyDict_Clear|PyDict_Clear', lit="{1: 'one'}", mutates=True),
    S('dict.copy', 'x.copy()', 'dict', helper=r'PyDict_Copy', lit="{1: 'one'}"),
    S('dict.contains', 'a in x', 'dict', ['key'], helper=r'__Pyx_PyDict_ContainsTF', lit="{1: 'one', 'a': 2}"),
    S('dict.notcontains', 'a not in x', 'dict', ['key'], helper=r'__Pyx_PyDict_ContainsTF', lit="{1: 'one', 'a': 2}"),
    S('dict.get-unbound', 'dict.get(x, a, b)', 'dict', ['key', 'obj'], helper=r'__Pyx_PyDict_GetItemDefault'),
    S('dict.pop-unbound', 'dict.pop(x, a)', 'dict', ['key'], helper=r'__Pyx_PyDict_Pop', mutates=True),
    S('dict.update', 'x.update(a)', 'dict', ['iter'], helper=None, mutates=True),
    # ---------------------------------------------------------------- list methods
    S('list.append', 'x.append(a)', 'list', ['obj'], helper=r'__Pyx_PyList_Append',
      lit='[1, 2, 3]', mutates=True),
    S('list.append-stmt', 'x.append(a)', 'list', ['obj'], helper=r'__Pyx_PyList_Append', untyped_helper=r'__Pyx_PyObject_Append',
      lit='[1, 2, 3]', mutates=True, stmt=True),
    S('list.extend', 'x.extend(a)', 'list', ['iter'], helper=r'__Pyx_PyList_Extend', lit='[1, 2, 3]', mutates=True),
    S('list.pop0', 'x.pop()', 'list', helper=r'__Pyx_PyList_Pop', untyped_helper=r'__Pyx_PyObject_Pop', lit='[1, 2, 3]', mutates=True),
    S('list.pop1', 'x.pop(a)', 'list', ['index'], helper=r'__Pyx_PyList_PopIndex',
      lit='[1, 2, 3]', mutates=True),
    S('list.pop-const', 'x.pop(1)', 'list', helper=r'__Pyx_PyList_PopIndex', untyped_helper=r'__Pyx_PyObject_PopIndex', lit='[1, 2, 3]', mutates=True),
    S('list.pop-neg', 'x.pop(-2)', 'list', helper=r'__Pyx_PyList_PopIndex', untyped_helper=r'__Pyx_PyObject_PopIndex', lit='[1, 2, 3]', mutates=True),
    S('list.pop-cidx', 'x.pop(a)', 'list', [['0', '1', '-1', '5', '-5', '2**31-1', '-2**31']], decl_args='int a', helper=r'__Pyx_PyList_PopIndex',
      untyped_helper=r'__Pyx_PyObject_PopIndex', mutates=True),
    S('list.insert', 'x.insert(a, b)', 'list', ['index', 'obj'], helper=r'PyList_Insert', lit='[1, 2, 3]', mutates=True),
    S('list.reverse', 'x.reverse()', 'list', helper=r'PyList_Reverse', lit='[1, 2, 3]', mutates=True),
    S('list.sort', 'x.sort()', 'list', helper=r'PyList_Sort', lit="[3, 1, 2]", mutates=True),
    S('list.sort-key', 'x.sort(key=a)', 'list', ['callkey'], helper=None, mutates=True),
    S('list.index', 'x.index(a)', 'list', ['obj'], helper=None, lit='[1, 2, 3]'),
    S('list.count', 'x.count(a)', 'list', ['obj'], helper=None, lit='[1, 2, 1]'),
    S('list.contains', 'a in x', 'list', ['obj'], helper=None, lit='[1, 2, 3]'),
    S('list.append-unbound', 'list.append(x, a)', 'list', ['obj'], helper=r'__Pyx_PyList_Append', mutates=True),
    S('list.pop-unbound', 'list.pop(x, a)', 'list', ['smallidx'], helper=r'__Pyx_PyList_PopIndex', mutates=True),
    S('list.mul', 'x * a', 'list', ['tinyint'], helper=None),
    S('tuple.mul', 'x * a', 'tuple', ['tinyint'], helper=r'__Pyx_PyTuple_Type_Multiply|PyNumber_Multiply'),
    S('tuple.contains', 'a in x', 'tuple', ['obj'], helper=None, lit='(1, 2, 3)'),
    S('tuple-lit.contains', "x in (1, 'a', None)", 'obj', helper=r''),
    # ---------------------------------------------------------------- set methods
    S('set.add', 'x.add(a)', 'set', ['key'], helper=r'PySet_Add', lit='{1, 2}', mutates=True),
    S('set.discard', 'x.discard(a)', 'set', ['key', ], helper=r'__Pyx_PySet_Discard', lit='{1, 2}', mutates=True),
    S('set.remove', 'x.remove(a)', 'set', ['key'], helper=r'__Pyx_PySet_Remove', lit='{1, 2}', mutates=True),
    S('set.discard-set', 'x.discard(a)', 'set', [['{1}', 'set()', 'frozenset({1})', '{1, 2}', 'St({1})', '{2}']], helper=r'__Pyx_PySet_Discard',
      recv_pool=['setofsets'], mutates=True),
    S('set.remove-set', 'x.remove(a)', 'set', [['{1}', 'set()', 'frozenset({1})', '{1, 2}', 'St({1})', '{2}']], helper=r'__Pyx_PySet_Remove',
      recv_pool=['setofsets'], mutates=True),
    S('set.pop', 'x.pop()', 'set', helper=r'PySet_Pop', lit='{1}', mutates=True),
    S('set.clear', 'x.clear()', 'set', helper=r'PySet_Clear', lit='{1, 2}', mutates=True),
    S('set.contains', 'a in x', 'set', ['key'], helper=r'PySet_Contains|__Pyx_PySet_ContainsTF', lit='{1, 2}'),
    S('frozenset.contains', 'a in x', 'frozenset', ['key'], helper=None),
    S('set-lit.contains', "x in {1, 'a', None}", 'obj', helper=r'PySet_Contains|__Pyx_PySet_ContainsTF', recv_pool=['key']),
    S('set.update', 'x.update(a)', 'set', ['iter'], helper=None, mutates=True),
    # ---------------------------------------------------------------- bytearray methods
    S('bytearray.append', 'x.append(a)', 'bytearray', ['byteval'], helper=r'__Pyx_PyByteArray_Append', mutates=True),
    S('bytearray.append-cint', 'x.append(a)', 'bytearray', [['0', '97', '255', '256', '-1', '1000']], decl_args='int a',
      helper=r'__Pyx_PyByteArray_Append', mutates=True),
    S('bytearray.append-char', 'x.append(a)', 'bytearray', [['0', '97', '127']], decl_args='char a', helper=r'__Pyx_PyByteArray_Append', mutates=True),
    S('bytearray.extend', 'x.extend(a)', 'bytearray', ['bytesiterable'], helper=r'__Pyx_PyByteArray_Extend', mutates=True),
    S('bytearray.extend-bytes', 'x.extend(a)', 'bytearray', [["b''", "b'xyz'", "b'\\xff'", 'None']], decl_args='bytes a',
      helper=r'__Pyx_PyByteArray_ExtendBytes', mutates=True),
    S('bytearray.startswith', 'x.startswith(a)', 'bytearray', ['bytesarg'], helper=None),
    S('bytearray.endswith3', 'x.endswith(a, b, c)', 'bytearray', ['bytesarg', 'index', 'index'], helper=None),
    # ---------------------------------------------------------------- str methods
    S('str.startswith1', 'x.startswith(a)', 'str', ['strs'], helper=r'__Pyx_PyUnicode_Tailmatch', lit="'hello world'"),
    S('str.endswith1', 'x.endswith(a)', 'str', ['strs'], helper=r'__Pyx_PyUnicode_Tailmatch', lit="'hello world'"),
    S('str.startswith2', 'x.startswith(a, b)', 'str', ['strs', 'index'], helper=r'__Pyx_PyUnicode_Tailmatch', lit="'hello world'"),
    S('str.endswith2', 'x.endswith(a, b)', 'str', ['strs', 'index'], helper=r'__Pyx_PyUnicode_Tailmatch', lit="'hello world'"),
    S('str.startswith3', 'x.startswith(a, b, c)', 'str', ['strs', 'index', 'index'], helper=r'__Pyx_PyUnicode_Tailmatch', lit="'hello world'"),
    S('str.endswith3', 'x.endswith(a, b, c)', 'str', ['strs', 'index', 'index'], helper=r'__Pyx_PyUnicode_Tailmatch', lit="'hello world'"),
    S('str.startswith-lit', "x.startswith('he', a, b)", 'str', ['index', 'index'], helper=r'__Pyx_PyUnicode_Tailmatch'),
    S('str.endswith-tuple-lit', "x.endswith(('ld', 'c'), a)", 'str', ['index'], helper=r'__Pyx_PyUnicode_Tailmatch'),
    S('str.startswith-unbound', 'str.startswith(x, a)', 'str', ['strs'], helper=r'__Pyx_PyUnicode_Tailmatch'),
    S('str.find1', 'x.find(a)', 'str', ['strs'], helper=r'PyUnicode_Find', lit="'hello world'"),
    S('str.find2', 'x.find(a, b)', 'str', ['strs', 'index'], helper=r'PyUnicode_Find', lit="'hello world'"),
    S('str.find3', 'x.find(a, b, c)', 'str', ['strs', 'index', 'index'], helper=r'PyUnicode_Find', lit="'hello world'"),
    S('str.rfind1', 'x.rfind(a)', 'str', ['strs'], helper=r'PyUnicode_Find', lit="'hello world'"),
    S('str.rfind3', 'x.rfind(a, b, c)', 'str', ['strs', 'index', 'index'], helper=r'PyUnicode_Find', lit="'hello world'"),
    S('str.count1', 'x.count(a)', 'str', ['strs'], helper=r'PyUnicode_Count', lit="'hello world'"),
    S('str.count3', 'x.count(a, b, c)', 'str', ['strs', 'index', 'index'], helper=r'PyUnicode_Count', lit="'hello world'"),
    S('str.contains', 'a in x', 'str', ['strs'], helper=r'__Pyx_PyUnicode_ContainsTF', lit="'hello world'"),
    S('str.join', 'x.join(a)', 'str', ['striter'], helper=r'PyUnicode_Join', lit="', '"),
    S('str.join-genexpr', 'x.join(v for v in a)', 'str', ['striter'], helper=r'PyUnicode_Join', lit="', '"),
    S('str.join-listcomp', 'x.join([v + v for v in a])', 'str', ['striter'], helper=r'PyUnicode_Join', lit="''"),
    S('str.split0', 'x.split()', 'str', helper=r'PyUnicode_Split', lit="' a b  c '"),
    S('str.split1', 'x.split(a)', 'str', ['strs'], helper=r'PyUnicode_Split', lit="'hello world'"),
    S('str.split2', 'x.split(a, b)', 'str', ['strs', 'maxsplit'], helper=r'PyUnicode_Split', lit="'hello world'"),
    S('str.split-kw', 'x.split(a, maxsplit=b)', 'str', ['strs', 'maxsplit'], helper=None),
    S('str.splitlines0', 'x.splitlines()', 'str', helper=r'PyUnicode_Splitlines', lit="'a\\nb\\r\\nc'"),
    S('str.splitlines1', 'x.splitlines(a)', 'str', ['boolish'], helper=r'PyUnicode_Splitlines', lit="'a\\nb\\r\\nc'"),
    S('str.replace2', 'x.replace(a, b)', 'str', ['strs', 'strs'], helper=r'PyUnicode_Replace', lit="'hello world'"),
    S('str.replace3', 'x.replace(a, b, c)', 'str', ['strs', 'strs', 'maxsplit'], helper=r'PyUnicode_Replace', lit="'hello world'"),
    S('str.encode0', 'x.encode()', 'str', helper=r'PyUnicode_AsUTF8String|PyUnicode_AsEncodedString', lit="'h\\xe9\\u20ac'"),
    S('str.encode-utf8', "x.encode('utf-8')", 'str', helper=r'PyUnicode_AsUTF8String|PyUnicode_AsEncodedString', lit="'h\\xe9\\u20ac'"),
    S('str.encode-ascii', "x.encode('ascii')", 'str', helper=r'PyUnicode_AsASCIIString|PyUnicode_AsEncodedString', lit="'h\\xe9\\u20ac'"),
    S('str.encode-latin1', "x.encode('latin-1')", 'str', helper=r'PyUnicode_AsLatin1String|PyUnicode_AsEncodedString'),
    S('str.encode-utf16', "x.encode('UTF-16')", 'str', helper=r'PyUnicode_AsUTF16String|PyUnicode_AsEncodedString'),
    S('str.encode-ascii-ignore', "x.encode('ascii', 'ignore')", 'str', helper=r'PyUnicode_AsEncodedString'),
    S('str.encode1', 'x.encode(a)', 'str', ['enc'], helper=None, lit="'h\\xe9\\u20ac'"),
    S('str.encode2', 'x.encode(a, b)', 'str', ['enc', 'errors'], helper=None, lit="'h\\xe9\\u20ac'"),
    S('str.lower', 'x.lower()', 'str', helper=None), S('str.upper', 'x.upper()', 'str', helper=None),
    S('str.strip', 'x.strip()', 'str', helper=None), S('str.format', 'x.format(a)', 'str', ['obj'], helper=None),
    S('str.mod', 'x % a', 'str', ['obj'], helper=r'__Pyx_PyUnicode_FormatSafe|PyUnicode_Format', recv_pool=['fmtstrs']),
    S('str.mul', 'x * a', 'str', ['tinyint'], helper=r'__Pyx_PyUnicode_Type_Multiply|PyNumber_Multiply|__Pyx_PySequence_Multiply'),
    S('str.eq', 'x == a', 'str', ['strs'], helper=r'__Pyx_PyObject_CompareEq_str_object|__Pyx_PyUnicode_Equals'),
    S('str.ne', 'x != a', 'str', ['strs'], helper=r'__Pyx_PyObject_CompareNe_str_object|__Pyx_PyUnicode_Equals'),
    S('str.concat', 'x + a', 'str', ['strs'], helper=r'__Pyx_PyUnicode_Concat|PyNumber_Add'),
    # Py_UCS4 character predicates
] + [S('uchar.%s' % m, 'x.%s()' % m, None, decl='Py_UCS4 x', recv_pool=UCHARS, helper=r'__Pyx_Py_UNICODE_%s|Py_UNICODE_%s' % (m.upper(), m.upper()))
     for m in ('isalnum', 'isalpha', 'isdecimal', 'isdigit', 'islower', 'isnumeric', 'isspace', 'istitle', 'isupper', 'isprintable')] + [
    S('uchar.lower', 'x.lower()', None, decl='Py_UCS4 x', recv_pool=UCHARS, helper=None),
    S('uchar.upper', 'x.upper()', None, decl='Py_UCS4 x', recv_pool=UCHARS, helper=None),
    S('uchar.in-str', 'x in a', None, ['strs_only'], decl='Py_UCS4 x', recv_pool=UCHARS, helper=None),
    S('uchar.in-lit', "x in 'abc\\xe9\\u20ac'", None, decl='Py_UCS4 x', recv_pool=UCHARS, helper=r''),
    # ---------------------------------------------------------------- bytes methods
    S('bytes.decode0', 'x.decode()', 'bytes', helper=r'__Pyx_decode_bytes|PyUnicode_DecodeUTF8', lit="b'caf\\xc3\\xa9'"),
    S('bytes.decode-utf8', "x.decode('utf-8')", 'bytes', helper=r'__Pyx_decode_bytes|PyUnicode_DecodeUTF8', lit="b'caf\\xc3\\xa9'"),
    S('bytes.decode-ascii', "x.decode('ascii')", 'bytes', helper=r'__Pyx_decode_bytes|PyUnicode_DecodeASCII'),
    S('bytes.decode-latin1-ignore', "x.decode('latin-1', 'ignore')", 'bytes', helper=r'__Pyx_decode_bytes'),
    S('bytes.decode-utf16', "x.decode('UTF-16')", 'bytes', helper=r'__Pyx_decode_bytes'),
    S('bytes.decode1', 'x.decode(a)', 'bytes', ['enc'], helper=None, lit="b'caf\\xc3\\xa9'"),
    S('bytes.decode2', 'x.decode(a, b)', 'bytes', ['enc', 'errors'], helper=None),
    S('bytes.slice-decode', "x[a:b].decode('utf-8')", 'bytes', ['index', 'index'], helper=r'__Pyx_decode_bytes'),
    S('bytes.slice-decode-start', "x[a:].decode('latin-1')", 'bytes', ['index'], helper=r'__Pyx_decode_bytes'),
    S('bytes.slice-decode-stop', "x[:b].decode('ascii', 'replace')", 'bytes', ['index'], helper=r'__Pyx_decode_bytes', argnames=['b']),
    S('bytearray.decode', "x.decode('utf-8')", 'bytearray', helper=r'__Pyx_decode_bytearray'),
    S('bytearray.slice-decode', "x[a:b].decode('utf-8')", 'bytearray', ['index', 'index'], helper=r'__Pyx_decode_bytearray'),
    S('bytes.startswith1', 'x.startswith(a)', 'bytes', ['bytesarg'], helper=r'__Pyx_PyBytes_Tailmatch', lit="b'hello world'"),
    S('bytes.endswith1', 'x.endswith(a)', 'bytes', ['bytesarg'], helper=r'__Pyx_PyBytes_Tailmatch', lit="b'hello world'"),
    S('bytes.startswith3', 'x.startswith(a, b, c)', 'bytes', ['bytesarg', 'index', 'index'], helper=r'__Pyx_PyBytes_Tailmatch', lit="b'hello world'"),
    S('bytes.endswith2', 'x.endswith(a, b)', 'bytes', ['bytesarg', 'index'], helper=r'__Pyx_PyBytes_Tailmatch'),
    S('bytes.find1', 'x.find(a)', 'bytes', ['bytesarg'], helper=None, lit="b'hello world'"),
    S('bytes.find3', 'x.find(a, b, c)', 'bytes', ['bytesarg', 'index', 'index'], helper=None),
    S('bytes.join', 'x.join(a)', 'bytes', ['bytesiter'], helper=r'__Pyx_PyBytes_Join|_PyBytes_Join|PyBytes_Join', lit="b', '"),
    S('bytes.contains', 'a in x', 'bytes', ['byteval'], helper=None, lit="b'hello world'"),
    S('bytes.eq', 'x == a', 'bytes', ['bytesarg'], helper=r'__Pyx_PyObject_CompareEq_bytes_object|__Pyx_PyBytes_Equals'),
    S('bytes.getitem', 'x[a]', 'bytes', ['smallidx'], helper=None),
    # ---------------------------------------------------------------- dense start/end grids on a fixed receiver
    S('str.startswith3-dense', 'x.startswith(a, b, c)', 'str', ['needle', 'nearidx', 'nearidx'], helper=r'__Pyx_PyUnicode_Tailmatch',
      recv_pool=['hello'], dense=True),
    S('str.endswith3-dense', 'x.endswith(a, b, c)', 'str', ['needle', 'nearidx', 'nearidx'], helper=r'__Pyx_PyUnicode_Tailmatch',
      recv_pool=['hello'], dense=True),
    S('str.find3-dense', 'x.find(a, b, c)', 'str', ['needle1', 'nearidx', 'nearidx'], helper=r'PyUnicode_Find', recv_pool=['hello'], dense=True),
    S('str.rfind3-dense', 'x.rfind(a, b, c)', 'str', ['needle1', 'nearidx', 'nearidx'], helper=r'PyUnicode_Find', recv_pool=['hello'], dense=True),
    S('str.count3-dense', 'x.count(a, b, c)', 'str', ['needle1', 'nearidx', 'nearidx'], helper=r'PyUnicode_Count', recv_pool=['hello'], dense=True),
    S('bytes.startswith3-dense', 'x.startswith(a, b, c)', 'bytes', ['bneedle', 'nearidx', 'nearidx'], helper=r'__Pyx_PyBytes_Tailmatch',
      recv_pool=['bhello'], dense=True),
    S('bytes.endswith3-dense', 'x.endswith(a, b, c)', 'bytes', ['bneedle', 'nearidx', 'nearidx'], helper=r'__Pyx_PyBytes_Tailmatch',
      recv_pool=['bhello'], dense=True),
    S('bytes.slice-decode-dense', "x[a:b].decode('utf-8')", 'bytes', ['nearidx', 'nearidx'], helper=r'__Pyx_decode_bytes', recv_pool=['bhello'], dense=True),
    S('bytearray.slice-decode-dense', "x[a:b].decode('ascii')", 'bytearray', ['nearidx', 'nearidx'], helper=r'__Pyx_decode_bytearray',
      recv_pool=['bahello'], dense=True),
    S('list.pop1-dense', 'x.pop(a)', 'list', ['nearidx'], helper=r'__Pyx_PyList_PopIndex', recv_pool=['lists6'], mutates=True, dense=True),
    S('list.insert-dense', 'x.insert(a, b)', 'list', ['nearidx', ["'new'"]], helper=r'PyList_Insert', recv_pool=['lists6'], mutates=True, dense=True),
    S('str.split2-dense', 'x.split(a, b)', 'str', [["' '", "'l'", "'ll'", "'o'", 'None'], ['-1', '0', '1', '2', '3', '100']], helper=r'PyUnicode_Split',
      recv_pool=['hello'], dense=True),
    S('str.replace3-dense', 'x.replace(a, b, c)', 'str', [["'l'", "'ll'", "'o'", "''", "'hello world'"], ["'L'", "''", "'xyz'"], ['-1', '0', '1', '2', '3', '100']],
      helper=r'PyUnicode_Replace', recv_pool=['hello'], dense=True),
]

EXTRA_POOLS = {
    'attrname': ["'real'", "'append'", "'nope'", "'__class__'", "S('real')", '1', 'None', "b'real'", "'\\xe9'", "''"],
    'smallnum': ['0', '1', '2', '-1', '3', '0.5', 'None', "'a'", '-2', 'True', 'I(2)', '7'],
    'tinyint': ['0', '1', '2', '-1', '3', 'None', "'a'", '1.0', 'True', 'I(2)', 'Idx(2)', '2**63'],
    'strs_only': ["''", "'abc'", "'a\\xe9'", "'x\\u20acy'", "'\\U0001f600'", "'\\u0661\\u00b2'", 'None'],
    'bytesiterable': ["b''", "b'xyz'", "bytearray(b'q')", '[1, 2]', '[256]', "'ab'", 'None', '5', 'gen_list(3)', "memoryview(b'mv')",
                      "[-1]", "['a']", 'IterRaises(1)', '(97, 98)', 'range(3)', 'range(254, 258)'],
}
EXTRA_POOLS.update({
    'nearidx': ['0', '1', '-1', '2', '-2', '4', '5', '-5', '6', '10', '11', '-11', '12', '-12', 'None', '3', '2**63-1', '-2**63'],
    'needle': ["'h'", "'hello'", "'world'", "'o w'", "'d'", "''", "'hello world'", "'x'", "('zz', 'hello')", "('d', 'w')"],
    'needle1': ["'l'", "'o'", "'lo'", "''", "'world'", "'hello world'", "'x'"],
    'bneedle': ["b'h'", "b'hello'", "b'world'", "b'o w'", "b'd'", "b''", "b'hello world'", "b'x'", "(b'zz', b'hello')", "(b'd', b'w')"],
})
POOLS.update(EXTRA_POOLS)
RECV.update({
    'hello': (["'hello world'"], []), 'bhello': (["b'hello world'"], []), 'bahello': (["bytearray(b'hello world')"], []),
    'lists6': (['list(range(6))', '[1, 2, 3]', '[]', '[7]'], []),
    'ordstr': (["'a'", "'\\xe9'", "'\\u20ac'", "'\\U0001f600'", "'ab'", "''", "'\\ud800'"], ["S('a')", 'None', "b'a'"]),
    'ordbytes': (["b'a'", "b'\\xff'", "b'ab'", "b''"], ["B(b'a')", 'None', "'a'"]),
    'floatstr': ([v for v in FLOATARG if v.startswith(("'", '"', "' "))], ["S('8.5')", 'None', "b'1'"]),
    'floatbytes': (["b'2.5'", "b' 2.5 '", "b'nan'", "b'inf'", "b'1e3'", "b'abc'", "b''", "b'1_0'", "b'1.5\\x00'", "b'-Infinity'", "b'+1'"],
                   ["B(b'1')", 'None', "'1'"]),
    'floatba': (["bytearray(b'3.5')", "bytearray(b' nan ')", "bytearray(b'x')", "bytearray(b'')"], ['None']),
    'key': (KEY, []),
    'iters': (['iter([1, 2])', 'iter([])', 'gen_list(2)', 'iter(IterRaises(0))', 'None', '5', '[1]', "iter('ab')", 'iter({1: 2})', 'NextRaises()'], []),
    'setofsets': (['{frozenset({1}), 2}', '{frozenset(), frozenset({1, 2})}', 'set()'], ['None']),
    'fmtstrs': (["'%s'", "'%d'", "'%s %s'", "'%r'", "'abc'", "'%'", "'%(k)s'", "'%5.2f'", "'%c'", "'%x'"], ["S('%s')", 'None']),
})
SETUP += r'''
class NextRaises:
    def __iter__(self): return self
    def __next__(self): raise ZeroDivisionError('NextRaises')
    def __vsig__(self): return 'NextRaises'
'''


def strip_types(src):
    out = []
    for line in src.splitlines():
        m = re.match(r'^(\s*def\s+\w+)\((.*)\):\s*$', line)
        if m:
            ps = [p.strip().split()[-1] for p in m.group(2).split(',') if p.strip()]
            out.append('%s(%s):' % (m.group(1), ', '.join(ps)))
        else:
            out.append(line)
    return '\n'.join(out) + '\n'


class Fn:
    __slots__ = ('name', 'spec', 'typing', 'src', 'ref', 'cases', 'helper')

    def __init__(self, name, spec, typing, src, cases, helper):
        self.name, self.spec, self.typing, self.src, self.cases, self.helper = name, spec, typing, src, cases, helper
        self.ref = strip_types(src)


def pool(role):
    if isinstance(role, list):
        return role
    return POOLS[role]


def recv_pools(spec):
    rp = spec.recv_pool
    if isinstance(rp, list) and len(rp) == 1 and rp[0] in RECV:
        return RECV[rp[0]]
    if isinstance(rp, list):
        return rp, []
    return RECV[rp]


def choose_cases(rng, recvs, argpools, n):
    """every value of every pool at least once, then seeded random combinations up to n"""
    pools = [recvs] + argpools
    seen = set()
    out = []

    def add(t):
        if t not in seen:
            seen.add(t)
            out.append(t)
    base = tuple(p[0] for p in pools)
    add(base)
    for pi, p in enumerate(pools):
        for v in p:
            t = list(rng.choice(q) for q in pools) if rng.random() < 0.5 else list(base)
            t[pi] = v
            add(tuple(t))
    total = 1
    for p in pools:
        total *= len(p)
    tries = 0
    while len(out) < min(n, total) and tries < 10 * n:
        add(tuple(rng.choice(p) for p in pools))
        tries += 1
    return out


def generate(rng, ncases, names=None):
    fns = []
    n = 0
    for spec in SPECS:
        if names and not re.search(names, spec.name):
            continue
        good, hostile = recv_pools(spec)
        argn = getattr(spec, 'argnames', None) or ARGN[:len(spec.roles)]
        argpools = [pool(r) for r in spec.roles]
        decl_args = getattr(spec, 'decl_args', None)
        typings = []
        if spec.decl:                       # C-typed "receiver" only
            typings.append(('ctyped', spec.decl, list(good)))
        else:
            typed_name = spec.recv if spec.recv in ('list', 'tuple', 'dict', 'set', 'frozenset', 'str', 'bytes', 'bytearray') else None
            if not spec.dense:
                typings.append(('untyped', 'x', list(good) + list(hostile) + (['None'] if 'None' not in good and typed_name else [])))
            if typed_name:
                typings.append(('typed', '%s x' % typed_name, list(good) + ([] if spec.dense else ['None'])))
            if spec.lit:
                typings.append(('literal', None, None))
        for tname, xdecl, recvs in typings:
            n += 1
            nm = 'fz%dz' % n
            aparams = []
            for i, an in enumerate(argn):
                aparams.append(an)
            if decl_args:
                dname = decl_args.split()[-1]
                aparams = [decl_args if an == dname else an for an in aparams]
            L = []
            if tname == 'literal':
                L.append('def %s(%s):' % (nm, ', '.join(aparams)))
                L.append('    x = %s' % spec.lit)
            else:
                L.append('def %s(%s):' % (nm, ', '.join([xdecl] + aparams)))
            if spec.stmt:
                L.append('    ' + spec.expr)
                L.append('    r = None')
            else:
                L.append('    r = ' + spec.expr)
            if tname == 'literal':
                L.append('    return (r, x)')
            else:
                L.append('    return r')
            src = '\n'.join(L) + '\n'
            if tname == 'literal':
                combos = choose_cases(rng, ['_'], argpools, ncases) if argpools else [('_',)]
                cases = [('(%s)' % ''.join(a + ', ' for a in c[1:]), (spec.lit,) + tuple(c[1:])) for c in combos]
            else:
                combos = choose_cases(rng, recvs, argpools, ncases * (5 if spec.dense else 1))
                cases = [('(%s)' % ''.join(a + ', ' for a in c), tuple(c)) for c in combos]
            helper = spec.helper
            if tname == 'untyped' and typed_name:
                # optimisations keyed on the receiver type cannot fire for an untyped receiver; a few shapes have an
                # optimistic generic helper (x.append(v) as a statement, x.pop(), x.pop(<int>))
                helper = spec.untyped_helper
            fns.append(Fn(nm, spec, tname, src, cases, helper))
    return fns
