"""Generator of float() argument texts (C06): CPython's float grammar, systematic mutations that leave it,
and a bounded-exhaustive enumeration of short strings over the structural alphabet."""
import itertools

ASCII_WS = [' ', '\t', '\n', '\r', '\x0b', '\x0c']
ASCII_SEP_WS = ['\x1c', '\x1d', '\x1e', '\x1f']          # str.isspace() but not Py_ISSPACE
UNI_WS = ['\x85', '\xa0', '\u1680', '\u2000', '\u2003', '\u200a', '\u2028', '\u2029', '\u202f', '\u205f', '\u3000']
NOT_WS = ['\u200b', '\ufeff', '\u180e']                  # look like spaces, are not
DIGIT_ZEROS = [0x0660, 0x06F0, 0x0966, 0xFF10, 0x1D7CE, 0x0E50, 0x104A0]   # 2-byte, 2-byte, ..., 4-byte kinds
STRUCT_ALPHABET = ['1', '_', '.', 'e', '+', ' ']


def digits(rng, n, underscores=0.0):
    out = []
    for i in range(n):
        if i and rng.random() < underscores:
            out.append('_')
        out.append(rng.choice('0123456789'))
    return ''.join(out)


def number(rng):
    """a text of CPython's float grammar (without surrounding whitespace) and a tag describing it"""
    k = rng.randrange(12)
    us = rng.choice([0.0, 0.0, 0.15, 0.4])
    if k == 0:
        w = rng.choice(['inf', 'infinity', 'nan'])
        w = ''.join(c.upper() if rng.random() < 0.4 else c for c in w)
        return rng.choice(['', '', '+', '-']) + w, 'infnan'
    ln = rng.choice([1, 1, 2, 3, 5, 8, 17, 20, 25, 37, 38, 39, 40, 41, 60]) if rng.random() < 0.9 else rng.choice([80, 400, 2000])
    ip = digits(rng, ln, us)
    s = rng.choice(['', '', '', '+', '-'])
    form = rng.randrange(5)
    if form == 0:
        body = ip
    elif form == 1:
        body = ip + '.'
    elif form == 2:
        body = '.' + digits(rng, rng.randrange(1, 8), us)
    else:
        body = ip + '.' + digits(rng, rng.randrange(1, 20), us)
    if rng.random() < 0.5:
        body += rng.choice('eE') + rng.choice(['', '', '+', '-']) + digits(rng, rng.choice([1, 1, 2, 3, 3, 4, 6]), us)
    return s + body, 'number' + ('_us' if '_' in body else '')


def nonascii_digits(rng, s):
    z = rng.choice(DIGIT_ZEROS)
    return ''.join(chr(z + ord(c) - 48) if c.isdigit() and rng.random() < 0.7 else c for c in s)


def mutate(rng, s):
    """one structural mutation, returns (text, mutation name)"""
    k = rng.randrange(16)
    pos = rng.randrange(len(s) + 1)

    def find(chars):
        idx = [i for i, c in enumerate(s) if c in chars]
        return rng.choice(idx) if idx else None
    if k == 0:
        return s[:pos] + '_' + s[pos:], 'insert_'
    if k == 1:
        i = find('_')
        if i is not None:
            return s[:i] + '_' + s[i:], 'double_'
        return s + '_', 'trailing_'
    if k == 2:
        return rng.choice(['_' + s, s + '_']), 'edge_'
    if k == 3:
        i = find('.eE+-')
        if i is not None:
            return rng.choice([s[:i] + '_' + s[i:], s[:i + 1] + '_' + s[i + 1:]]), 'punct_'
        return s[:pos] + '_' + s[pos:], 'insert_'
    if k == 4:
        return s[:pos] + rng.choice(ASCII_WS + UNI_WS) + s[pos:], 'inner_ws'
    if k == 5 and s:
        i = rng.randrange(len(s))
        return s[:i] + s[i + 1:], 'delete'
    if k == 6:
        return s[:pos] + rng.choice('+-') + s[pos:], 'extra_sign'
    if k == 7:
        return s[:pos] + '\x00' + s[pos:], 'nul'
    if k == 8:
        return s + rng.choice(['x', 'f', 'j', 'L', 'e', 'E', '.', 'inf', 'nan', '0x1']), 'junk_tail'
    if k == 9:
        return s[:pos] + rng.choice(['e', 'E', '.', 'e+', 'e-', 'e+_', 'e-_', '_e', '._', '_.']) + s[pos:], 'insert_punct'
    if k == 10:
        i = find('eE')
        if i is not None and i + 1 < len(s) and s[i + 1] in '+-':
            return s[:i + 2] + '_' + s[i + 2:], 'sign_'
        i = 1 if s[:1] in ('+', '-') else None
        if i:
            return s[:1] + '_' + s[1:], 'sign_'
        return s[:pos] + '_' + s[pos:], 'insert_'
    if k == 11:
        return s[:pos] + rng.choice(NOT_WS + ['\u00b2', '\u2160', '\u0663\u0663', '\u2177', '\u066b']) + s[pos:], 'insert_nonascii'
    if k == 12:
        return s.replace('inf', 'in_f').replace('nan', 'na_n') if ('inf' in s or 'nan' in s) else '0x' + s, 'word_'
    if k == 13:
        return '', 'empty'
    if k == 14:
        return s[:pos] + s[pos:pos + 3] + s[pos:], 'duplicate'
    return s[::-1], 'reverse'


def wrap_ws(rng, s):
    k = rng.randrange(6)
    if k <= 1:
        return s, ''
    pool = ASCII_WS if k <= 3 else ASCII_WS + UNI_WS + (ASCII_SEP_WS if k == 5 else [])
    left = ''.join(rng.choice(pool) for _ in range(rng.choice([0, 1, 1, 2, 5])))
    right = ''.join(rng.choice(pool) for _ in range(rng.choice([0, 1, 1, 2, 5])))
    return left + s + right, 'ws' if k <= 3 else 'uws'


def texts(rng, n):
    """n (text, tag) items: roughly half grammatical, half mutated"""
    out = []
    seen = set()
    while len(out) < n:
        s, tag = number(rng)
        if rng.random() < 0.15:
            s = nonascii_digits(rng, s)
            tag += '+nadigit'
        r = rng.random()
        if r < 0.5:
            nm = 1 if r < 0.4 else 2
            for _ in range(nm):
                s, m = mutate(rng, s)
                tag += '+' + m
        s, w = wrap_ws(rng, s)
        if w:
            tag += '+' + w
        if len(s) > 6000 or s in seen:
            continue
        seen.add(s)
        out.append((s, tag))
    return out


def exhaustive(maxlen, alphabet=None):
    alphabet = alphabet or STRUCT_ALPHABET
    for ln in range(1, maxlen + 1):
        for t in itertools.product(alphabet, repeat=ln):
            yield ''.join(t)


def to_bytes(s):
    """bytes form of a text: utf-8 with surrogatepass (non-ASCII digits/whitespace become invalid for bytes input)"""
    return s.encode('utf-8', 'surrogatepass')


# pools for vlib.gen.numblocks (kind 'vlib.gen.floatstr:pool_str' ...)
def pool_str(rng, n):
    return [(s,) for s, _ in texts(rng, n)]


def pool_bytes(rng, n):
    return [(to_bytes(s),) for s, _ in texts(rng, n)]


def pool_bytearray(rng, n):
    return [(bytearray(to_bytes(s)),) for s, _ in texts(rng, n)]
