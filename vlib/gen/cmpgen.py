"""Generators for C19: comparison chains over logging operands, membership tests against literal containers,
switchable if/elif chains over C-typed subjects. Items are dicts {name, family, src, pyx, cls, labels, cases?}."""

CMP_OPS = ['<', '<=', '==', '!=', '>', '>=']
ALL_OPS = CMP_OPS + ['is', 'is not', 'in', 'not in']
SCRIPT = ["'NI'", 'True', 'False', '0', '1', "'x'", "''", "('lbool', True)", "('lbool', False)", "'raise'", 'None', '[]', '[0]']
PLAIN = ['1', '2', '3', '2.5', '1.0', "float('nan')", "'a'", "'b'", "b'a'", 'None', '(1, 2)', 'True', '0', "''"]


class ChainGen:
    def __init__(self, rng, typed=False):
        self.rng = rng
        self.typed = typed
        self.k = 0
        # a chain mixes C numbers with C text operands or with container displays only through generic objects: comparing a
        # C double with a `str`-typed local or a tuple display inside a cascade crashes the compiler (C43-type defect)
        self.cvars = rng.choice([['ci', 'cd', 'cl'], ['cu', 'cs', 'cb'], ['ci', 'cl'], ['cs']]) if typed else []
        # pure C chains: every operand a C local, a literal or a call of the logging C producer cnx()
        self.all_c = typed and 'ci' in self.cvars and rng.random() < .5

    def key(self):
        self.k += 1
        return self.k

    def operand(self, container=False, allow_typed=True):
        rng = self.rng
        r = rng.random()
        if container:
            if r < .4:
                return 'E.c(%d, %s, [%s])' % (self.key(), rng.choice(['0', '5']), ', '.join(rng.sample(SCRIPT, rng.randint(0, 2)))), 'L'
            if r < .7 and not self.typed:
                n = rng.randint(1, 3)
                br = rng.choice(['()', '[]', '{}'])
                items = ', '.join(self.operand(allow_typed=False)[0] for _ in range(n))
                return '%s%s%s%s' % (br[0], items, ',' if br == '()' and n == 1 else '', br[1]), 'D' + br[0]
            if r < .85:
                return 'E.v(%d, %s)' % (self.key(), rng.choice(["'abc'", '(1, 2, 3)', '[1, 2.5]', "{'a': 1}", '{1, 2}', "b'ab'"])), 'V'
            return 'E.v(%d, 5)' % self.key(), 'V'        # not a container: TypeError
        if self.all_c and allow_typed:
            if r < .55:
                return 'cnx(E, %d, %s)' % (self.key(), rng.choice(['0', '1', '1', '2', '3', '5'])), 'C'
            return rng.choice([v for v in self.cvars if v != 'cd'] + ['1', '3']), 'C'
        if self.typed and allow_typed and r < .35:
            return rng.choice(self.cvars), 'C'
        if r < .6:
            val = rng.choice(['0', '1', '3', '5', "'a'", '2.5'])
            script = ', '.join(rng.choice(SCRIPT) for _ in range(rng.choice([0, 0, 1, 1, 2, 3])))
            return 'E.c(%d, %s, [%s])' % (self.key(), val, script), 'L'
        return 'E.v(%d, %s)' % (self.key(), rng.choice(PLAIN)), 'V'

    def chain(self, length=None):
        rng = self.rng
        n = length or (rng.choice([1, 1, 2, 2, 3, 4]) if not self.all_c else rng.choice([1, 2, 3, 3, 4, 4]))
        parts = [self.operand()]
        ops = []
        for j in range(n):
            op = rng.choice(CMP_OPS * 2 + ['is', 'is not', 'in', 'not in', 'in']) if not self.all_c else \
                rng.choice(['<=', '<=', '!=', '<', '>=', '==', '>'])
            if self.typed and n >= 3 and op in ('in', 'not in'):
                # `a in b != ci > c` (membership link inside a cascade of >= 3 links with a C operand) crashes the
                # compiler: AttributeError 'PyObjectType' object has no attribute 'rank' (C43-type defect)
                op = '=='
            ops.append(op)
            parts.append(self.operand(container=op in ('in', 'not in')))
        if self.typed and ops and ops[0] in ('in', 'not in') and len(ops) >= 2:
            # known finding: the C operand of the link after a membership test is cast to PyObject*; with a C double
            # that does not even compile (and would hide the whole module), so only integer C operands go there
            parts = parts[:2] + [(('ci', 'C') if p == ('cd', 'C') else p) for p in parts[2:]]
            if 'ci' not in self.cvars and any(p == ('ci', 'C') for p in parts[2:]):
                parts = parts[:2] + [(('cl', 'C') if p == ('ci', 'C') else p) for p in parts[2:]]
        # identity tests on C values have no Python meaning (a C double has no identity): use == there
        for j, op in enumerate(ops):
            if op in ('is', 'is not') and (parts[j][1] == 'C' or parts[j + 1][1] == 'C'):
                ops[j] = '==' if op == 'is' else '!='
        text = parts[0][0]
        for op, p in zip(ops, parts[1:]):
            text += ' %s %s' % (op, p[0])
        kinds = ''.join(p[1][0] for p in parts)
        self.containers = getattr(self, 'containers', []) + [p[1] for p in parts[1:]]
        return text, ops, kinds

    def function(self, name):
        self.k = 0
        self.containers = []
        rng = self.rng
        text, ops, kinds = self.chain()
        ctx = rng.choice(['value', 'value', 'if', 'not', 'and', 'while', 'ifexp', 'assert'])
        ind = '    '
        if ctx == 'value':
            body = [ind + 'r = (%s)' % text]
        elif ctx == 'if':
            body = [ind + 'if %s:' % text, ind + "    r = 'T'", ind + 'else:', ind + "    r = 'F'"]
        elif ctx == 'not':
            body = [ind + 'r = not (%s)' % text]
        elif ctx == 'and':
            t2, ops2, kinds2 = self.chain(length=1)
            ops = ops + ops2
            kinds += kinds2
            body = [ind + 'r = ((%s) %s (%s))' % (text, rng.choice(['and', 'or']), t2)]
        elif ctx == 'while':
            body = [ind + 'n = 0', ind + 'while %s:' % text, ind + '    n += 1', ind + '    if n > 1: break', ind + 'r = n']
        elif ctx == 'ifexp':
            body = [ind + "r = 'T' if %s else 'F'" % text]
        else:
            body = [ind + 'try:', ind + '    assert %s' % text, ind + "    r = 'passed'", ind + 'except AssertionError:',
                    ind + "    r = 'failed'"]
        head = ['def %s():' % name]
        if self.typed:
            head += [ind + 'cdef int ci', ind + 'cdef double cd', ind + 'cdef Py_UCS4 cu', ind + 'cdef str cs',
                     ind + 'cdef bytes cb', ind + 'cdef long cl']
        head += [ind + 'E = Env(log)', ind + 'r = None']
        if self.typed:
            head += [ind + 'ci = E.v(100, %s)' % rng.choice(['0', '1', '3', '5', '-1']), ind + 'cd = E.v(101, %s)' % rng.choice(['2.5', '1.0', "float('nan')", '3.0']),
                     ind + "cu = E.v(102, %s)" % rng.choice(["'a'", "'b'", "'\\u20ac'"]), ind + 'cs = E.v(103, %s)' % rng.choice(["'a'", "'abc'", "''"]),
                     ind + "cb = E.v(104, %s)" % rng.choice(["b'a'", "b'ab'"]), ind + 'cl = E.v(105, %s)' % rng.choice(['3', '2**40', '-7'])]
        src = '\n'.join(head + body + [ind + 'return r']) + '\n'
        opcls = '+'.join(sorted({o.replace(' ', '') for o in ops}))
        return {'name': name, 'family': 'chain-typed' if self.typed else 'chain', 'src': src, 'typed': self.typed,
                'cls': '%s:len%d:%s:%s' % (ctx, len(ops), opcls, ''.join(sorted(set(kinds)))), 'ops': ops, 'ctx': ctx,
                'containers': list(self.containers), 'first_chain_len': len(ops) if ctx != 'and' else len(ops) - 1}


# ------------------------------------------------------------------ membership against literal containers

MEMBER_POOL = ['1', '1.0', 'True', '0', 'False', '2', '-1', "'a'", "b'a'", "'ab'", "''", 'None', '2.5', '(1, 2)', '97', "'\\u20ac'",
               '10**20', "'b'", '3', '1e300']
NEEDLES = ['1', '1.0', 'True', '0', '0.0', 'False', '2', "'a'", "b'a'", "'ab'", "''", 'None', '2.5', "float('nan')", 'NAN', '(1, 2)', '97',
           "'\\u20ac'", '10**20', 'I(1)', "S('a')", 'F(1.0)', '[1]', 'Unhashable()', 'EqRaises(1)', 'HashRaises()',
           'Env(log).c(1, 1)', "Env(log).c(1, 1, ['NI'])", "Env(log).c(1, 5, [0, ('lbool', True)])", "Env(log).c(1, 'a', ['x'])",
           'Env(log).c(1, 2, [False, False, False, False])', "Env(log).c(1, 1, ['raise'])", '-1', '3', '1e300']


def member_functions(rng, n, start=0):
    out = []
    for i in range(n):
        name = 'fz%dz' % (start + i)
        nm = rng.choice([1, 2, 3, 3, 4, 5, 8])
        members = [rng.choice(MEMBER_POOL) for _ in range(nm)]
        if rng.random() < .3 and nm > 1:
            members[-1] = members[0]          # duplicate member
        br = rng.choice(['()', '()', '[]', '{}', 'fs'])
        inner = ', '.join(members)
        if br == '()':
            lit = '(%s%s)' % (inner, ',' if nm == 1 else '')
        elif br == '[]':
            lit = '[%s]' % inner
        elif br == '{}':
            lit = '{%s}' % inner
        else:
            lit = 'frozenset((%s,))' % inner
        selfref = rng.random() < .2
        if selfref:
            lit = lit.replace(members[0], 'x', 1) if br != 'fs' else lit       # identity shortcut: x in [x, ...]
        op = rng.choice(['in', 'in', 'not in'])
        ctx = rng.choice(['value', 'if', 'and'])
        if ctx == 'value':
            body = '    return x %s %s\n' % (op, lit)
        elif ctx == 'if':
            body = "    if x %s %s:\n        return 'T'\n    return 'F'\n" % (op, lit)
        else:
            body = "    return (x %s %s) and 'yes'\n" % (op, lit)
        kinds = sorted({('str' if m.startswith("'") else 'bytes' if m.startswith('b') else 'num' if m[0].isdigit() or m[0] == '-' else 'other')
                        for m in members})
        out.append({'name': name, 'family': 'member', 'src': 'def %s(x):\n%s' % (name, body), 'typed': False, 'br': br, 'selfref': selfref,
                    'cls': '%s:%s:%s:%s%s' % (op.replace(' ', ''), br, '+'.join(kinds), ctx, ':selfref' if selfref else '')})
    return out


def typed_member_functions(rng, n, start=0):
    """C-typed needles: (ctype, literal container, needle values, reference conversion)"""
    shapes = [
        ('int', "(1, 2, 3)", 'ints'), ('int', "(1, 1, 5, 300)", 'ints'), ('int', "[0, -1]", 'ints'), ('long', "(2, 4, 2**40)", 'ints'),
        ('int', "(1, 2.5, 3)", 'ints'), ('int', "()", 'ints'), ('unsigned char', "(0, 255, 7)", 'uchars'), ('int', "b'ab\\x00'", 'ints'),
        ('unsigned char', "b'xyz'", 'uchars'), ('Py_UCS4', "'abc'", 'chars'), ('Py_UCS4', "'a\\u20ac\\U0001f600'", 'chars'),
        ('Py_UCS4', "('a', 'b', 'a')", 'chars'), ('Py_UCS4', "''", 'chars'), ('Py_UCS4', "'a'", 'chars'),
        ('str', "('a', 'b', 'ab')", 'strs'), ('str', "('a', 'a', '')", 'strs'), ('str', "['x', '\\u20ac']", 'strs'), ('str', "'abcab'", 'strs'),
        ('bytes', "(b'a', b'ab')", 'bytess'), ('bytes', "b'abcab'", 'bytess'), ('double', "(1.0, 2.5, 3)", 'floats'),
        ('double', "(1.0, float('nan'))", 'floats'), ('bint', "(True,)", 'bools'), ('int', "{1, 2, 3}", 'ints'), ('str', "{'a', 'b'}", 'strs'),
        ('int', "(RED, GREEN, 7)", 'ints'), ('int', "(1, 2, 3, 4, 5, 6, 7, 8, 9, 10, 11, 12, 12)", 'ints'),
    ]
    out = []
    for i in range(n):
        ct, lit, vals = shapes[i % len(shapes)] if i < len(shapes) else rng.choice(shapes)
        name = 'fz%dz' % (start + i)
        op = rng.choice(['in', 'in', 'not in'])
        ctx = rng.choice(['value', 'if'])
        body = ('    return x %s %s\n' % (op, lit)) if ctx == 'value' else ("    if x %s %s:\n        return 'T'\n    return 'F'\n" % (op, lit))
        out.append({'name': name, 'family': 'member-typed', 'src': 'def %s(x):\n%s' % (name, body),
                    'pyx': 'def %s(%s x):\n%s' % (name, ct, body), 'typed': True, 'vals': vals, 'ct': ct, 'lit': lit,
                    'cls': '%s:%s:%s:%s' % (op.replace(' ', ''), ct, 'str' if lit[0] in "'b" and lit[0:2] != '(b' else lit[0], ctx)})
    return out


TYPED_VALUES = {
    'ints': ['0', '1', '2', '3', '4', '5', '7', '12', '13', '-1', '97', '98', '255', '300', '2**31-1', '-2**31'],
    'uchars': ['0', '7', '120', '121', '255', '97', '1'],
    'chars': ["'a'", "'b'", "'c'", "'d'", "'\\u20ac'", "'\\U0001f600'", "'\\x00'", "'A'"],
    'strs': ["'a'", "'b'", "'ab'", "''", "'x'", "'\\u20ac'", "'abc'", "'ca'", "'z'"],
    'bytess': ["b'a'", "b'ab'", "b''", "b'c'", "b'ca'", "b'z'"],
    'floats': ['1.0', '2.5', '3.0', 'nan', '0.0', '-0.0', 'inf'],
    'bools': ['True', 'False'],
}


# ------------------------------------------------------------------ switchable if/elif chains

def switch_functions(rng, n, start=0):
    out = []
    for i in range(n):
        name = 'fz%dz' % (start + i)
        ct = rng.choice(['int', 'int', 'long', 'unsigned char', 'Py_UCS4', 'short', 'size_t', 'Color'])
        char = ct == 'Py_UCS4'
        consts = ["'%s'" % c for c in 'abcdefgh'] + ["'\\u20ac'"] if char else [str(v) for v in range(-2, 12)] + ['RED', 'GREEN', 'BLUE']
        if ct in ('unsigned char', 'size_t'):
            consts = [c for c in consts if not c.startswith('-')]
        if ct == 'Color':
            consts = ['RED', 'GREEN', 'BLUE', '1', '2', '7']
        nb = rng.randint(2, 6)
        lines = []
        feats = set()
        for b in range(nb):
            r = rng.random()
            if r < .35:
                cond = 'x == %s' % rng.choice(consts)
            elif r < .55:
                cs = [rng.choice(consts) for _ in range(rng.randint(2, 3))]
                if len(set(cs)) < len(cs):
                    feats.add('dup-in-or')
                cond = ' or '.join('x == %s' % c for c in cs)
                feats.add('or')
            elif r < .8:
                cs = [rng.choice(consts) for _ in range(rng.randint(1, 4))]
                if len(set(cs)) < len(cs):
                    feats.add('dup-in-tuple')
                cond = 'x in (%s,)' % ', '.join(cs)
                feats.add('in')
            elif r < .88:
                cond = 'x not in (%s,)' % ', '.join(rng.choice(consts) for _ in range(2))
                feats.add('notin')
            elif r < .94:
                cond = '%s == x' % rng.choice(consts)
                feats.add('reversed')
            else:
                cond = 'x == %s and y' % rng.choice(consts)     # not switchable: splits the chain
                feats.add('nonswitchable')
            lines.append('    %s %s:\n        return %d\n' % ('if' if b == 0 else 'elif', cond, b))
        if rng.random() < .7:
            lines.append('    else:\n        return -1\n')
        else:
            lines.append('    return -2\n')
        allc = [c for l in lines for c in __import__('re').findall(r"(?:== |\(|, )(-?\d+|'[^']*'|RED|GREEN|BLUE)", l)]
        if len(set(allc)) < len(allc):
            feats.add('overlap')
        body = ''.join(lines)
        decl = ct
        out.append({'name': name, 'family': 'switch', 'src': 'def %s(x, y):\n%s' % (name, body),
                    'pyx': 'def %s(%s x, bint y):\n%s' % (name, decl, body), 'typed': True, 'char': char, 'ct': ct,
                    'cls': '%s:%s' % (ct, '+'.join(sorted(feats)) or 'plain')})
    return out


# cnx: a logging C producer without error return value - its call is a plain C expression (no temp), so a comparison that
# pastes an operand twice evaluates it twice
SWITCH_PRELUDE_PYX = ('cdef enum Color:\n    RED = 1\n    GREEN = 2\n    BLUE = 5\n'
                      'cdef int cnx(object E, int k, int v) noexcept:\n    E.v(k, v)\n    return v\n')
SWITCH_PRELUDE_REF = 'RED = 1\nGREEN = 2\nBLUE = 5\ndef cnx(E, k, v):\n    E.v(k, v)\n    return v\n'
