"""faultgen: programs over instrumented objects for fault-injection / reference-balance checks.

Every operand is a `T` object (defined in RUNTIME below, shared by the CPython reference and the compiled
module through the `frt` runtime module). Every dunder ticks a global counter and raises Injected(k) when the
tick equals the armed k, so running a function once unarmed (counting N) and then N times armed drives every
error-cleanup path the run can reach."""

RUNTIME = r'''
import gc

class Injected(Exception):
    pass

class State:
    tick = 0
    armed = 0
    kinds = []
    live = 0

def reset(armed=0):
    State.tick = 0
    State.armed = armed
    State.kinds = []

def tick(kind):
    State.tick += 1
    State.kinds.append(kind)
    if State.tick == State.armed:
        raise Injected(State.tick, kind)

class TIter:
    def __init__(self, n, base):
        State.live += 1
        self.i = 0
        self.n = n
        self.base = base
    def __del__(self):
        State.live -= 1
    def __iter__(self):
        return self
    def __next__(self):
        tick('next')
        if self.i >= self.n:
            raise StopIteration
        self.i += 1
        return T(self.base * 10 + self.i)

class T:
    def __init__(self, v):
        State.live += 1
        self.v = v
    def __del__(self):
        State.live -= 1
    def __vsig__(self):
        return ('T', self.v)
    def __repr__(self):
        tick('repr'); return 'T(%d)' % self.v
    def __str__(self):
        tick('str'); return 't%d' % self.v
    def __format__(self, spec):
        tick('format'); return format(self.v, spec)
    def _o(self, o):
        return o.v if isinstance(o, T) else o
    def __add__(self, o):
        tick('add'); return T(self.v + self._o(o))
    def __radd__(self, o):
        tick('radd'); return T(self._o(o) + self.v)
    def __iadd__(self, o):
        tick('iadd'); return T(self.v + self._o(o) + 100)
    def __sub__(self, o):
        tick('sub'); return T(self.v - self._o(o))
    def __mul__(self, o):
        tick('mul'); return T(self.v * self._o(o))
    def __rmul__(self, o):
        tick('rmul'); return T(self._o(o) * self.v)
    def __neg__(self):
        tick('neg'); return T(-self.v)
    def __and__(self, o):
        tick('and'); return T(self.v & self._o(o))
    def __eq__(self, o):
        tick('eq'); return isinstance(o, T) and self.v == o.v
    def __ne__(self, o):
        tick('ne'); return not (isinstance(o, T) and self.v == o.v)
    def __lt__(self, o):
        tick('lt'); return self.v < self._o(o)
    def __gt__(self, o):
        tick('gt'); return self.v > self._o(o)
    def __le__(self, o):
        tick('le'); return self.v <= self._o(o)
    def __hash__(self):
        tick('hash'); return hash(self.v)
    def __bool__(self):
        tick('bool'); return self.v != 0
    def __index__(self):
        tick('index'); return self.v
    def __int__(self):
        tick('int'); return self.v
    def __float__(self):
        tick('float'); return float(self.v)
    def __len__(self):
        tick('len'); return abs(self.v) % 4
    def __iter__(self):
        tick('iter'); return TIter(abs(self.v) % 4, self.v)
    def __getitem__(self, i):
        tick('getitem')
        if isinstance(i, slice):
            return T(self.v * 100)
        return T(self.v * 10 + self._o(i))
    def __setitem__(self, i, x):
        tick('setitem'); self.v = self.v + 1
    def __delitem__(self, i):
        tick('delitem'); self.v = self.v - 1
    def __contains__(self, x):
        tick('contains'); return self._o(x) % 2 == 0
    def __call__(self, *a, **k):
        tick('call'); return T(self.v + len(a) + len(k))
    def __enter__(self):
        tick('enter'); return T(self.v + 1000)
    def __exit__(self, *exc):
        tick('exit'); return self.v % 7 == 3
    @property
    def p(self):
        tick('getattr'); return T(self.v + 1)
    def meth(self, x=None, *a, **k):
        tick('meth'); return T(self.v + 2)
    def keys(self):
        tick('keys'); return ['k%d' % (abs(self.v) % 3)]
'''

STMTS = [
    # {t}: a parameter (always a T object): attribute/method lookups only on those - CPython looks a method up before it
    # evaluates the arguments, compiled code afterwards (C20 finding), which would reorder exceptions on other objects
    # (weight, template lines) ; placeholders: {a} {b} {c} = readable T vars, {n} = new var, {e} = T expression
    ('{n} = {e}',),
    ('{n} = {a} + {b} * {c}',),
    ('{n} = -{a} - {b}',),
    ('{n} = {a}[{b}]',),
    ('{a}[{b}] = {e}',),
    ('del {a}[{b}]',),
    ('{n} = {a}[{b}:{c}]',),
    ('{n} = {t}.p',),
    ('{n} = {t}.meth({e})',),
    ('{n} = {t}.meth({b}, {c}, k={e})',),
    ('{n} = {a}({b}, *[{c}, {e}], **{{"x": {a}}})',),
    ('{n} = {a}({e})',),
    ('{n} = [{a}, {e}, {b}]',),
    ('{n} = ({a}, {e})',),
    ('{n} = {{{a}: {e}, {b}: {c}}}',),
    ('{n} = {{{a}, {b}, {e}}}',),
    ('{n} = [x + {a} for x in {b}]',),
    ('{n} = [x for x in {a} if x]',),
    ('{n} = {{x: {a} for x in {b}}}',),
    ('{n} = list({a})',),
    ('{n} = tuple({a})',),
    ('{n} = sorted({a})',),
    ('{n} = sum({a}, {b})',),
    ('{s} = len({a})',),
    ('{n} = int({a}) + 1',),
    ('{s} = float({a})',),
    ('{n} = str({a}) + repr({b})',),
    ('{n} = f"{{{a}}}-{{{b}!r}}-{{{c}:>4}}"',),
    ('{n} = "%s|%r" % ({a}, {b})',),
    ('{n} = {a} if {b} else {c}',),
    ('{n} = {a} and {b}',),
    ('{n} = {a} or {b} or {c}',),
    ('{s} = not {a}',),
    ('{n} = {a} < {b} <= {c}',),
    ('{s} = {a} == {b}',),
    ('{s} = {a} in {b}',),
    ('{n} = max({a}, {b})',),
    ('{n} = min({a}, {b}, {c})',),
    ('{s} = abs(int({a}))',),
    ('{n} = [1, 2, 3][{a}:{b}]',),
    ('{n} = (10, 20, 30)[{a}]',),
    ('{n} = "abcdef"[{a}]',),
    ('{n} = range({a})',),
    ('{n} = dict(**{t})',),
    ('{n} = {{**{{1: {a}}}, 2: {b}}}',),
    ('{n} = [*{a}, {b}]',),
    ('{a} += {b}',),
    ('{n}, {n2} = {a}, {b}',),
    ('{n}, {n2} = ({a} + {b}), {c}',),
    ('{n}, *{n2} = {a}',),
    ('{n}, {n2} = {a}',),
    ('{n}, {n2} = {e}',),
    ('{n}, {n2} = mk(2)',),
    ('[{n}, {n2}] = mk(2)',),
    ('{n}, {n2} = mk(6)[{a}]',),
    ('{n} = isinstance({a}, int) or {b}',),
    ('{s} = hash({a})',),
    ('{s} = bool({a})',),
    ('{s} = any(x for x in {a})',),
    ('{s} = all([x for x in {a}])',),
    ('{n} = list(map(int, {a}))',),
    ('{n} = list(zip({a}, {b}))',),
    ('{n} = list(enumerate({a}))',),
    ('{n} = (lambda z, y={a}: z + y)({b})',),
    ('log({a})',),
]

BLOCKS = ['for', 'for_break', 'while', 'if', 'try_except', 'try_finally', 'with', 'with_as', 'closure', 'genfunc', 'nested_try',
          'for_else', 'for_unpack']


class Gen:
    def __init__(self, rng):
        self.r = rng
        self.feats = {}

    def function(self, name):
        r = self.r
        self.vars = ['a', 'b', 'c']
        self.nn = 0
        self.lines = ['def %s(a, b, c):' % name]
        self.body(1, r.randint(3, 6), depth=2)
        self.lines.append('    return (%s)' % ', '.join(self.r.sample(self.vars, min(3, len(self.vars)))))
        return '\n'.join(self.lines) + '\n'

    def newvar(self):
        self.nn += 1
        return 'v%d' % self.nn

    def texpr(self):
        r = self.r
        a, b = r.choice(self.vars), r.choice(self.vars)
        return r.choice(['%s' % a, '(%s + %s)' % (a, b), 'mk(%d)' % r.randint(0, 9), '%s[%s]' % (a, b), '%s.p' % r.choice('abc'), '(-%s)' % a,
                         '%s(%s)' % (a, b), '(%s * %s)' % (a, b)])

    def stmt(self, ind):
        r = self.r
        tpl = r.choice(STMTS)
        new = []
        n, n2 = self.newvar(), self.newvar()
        for line in tpl:
            # {s}: scalar result (bool/len/hash/float...) that type inference may turn into a C variable; such
            # variables are logged but never used as operands (indexing a C bint is a compile-time error in Cython)
            s = line.format(a=r.choice(self.vars), b=r.choice(self.vars), c=r.choice(self.vars), e=self.texpr(), n=n, n2=n2, s=n, t=r.choice('abc'))
            if '{s}' in line:
                self.lines.append('    ' * ind + s)
                s = 'log(%s)' % n
            self.lines.append('    ' * ind + s)
        k = tpl[0].split(' ')[0]
        self.feats[tpl[0][:24]] = self.feats.get(tpl[0][:24], 0) + 1
        if '{n}' in tpl[0].split('=')[0] and '=' in tpl[0]:
            new.append(n)
        if '{n2}' in tpl[0].split('=')[0] and '=' in tpl[0]:
            new.append(n2)
        return new

    def body(self, ind, n, depth):
        """emit n statements/blocks; variables bound in this body are visible after it only if ind-level is unconditional"""
        r = self.r
        for _ in range(n):
            if depth > 0 and r.random() < 0.4:
                self.block(ind, depth - 1)
            else:
                new = self.stmt(ind)
                self.vars.extend(new)

    def sub(self, ind, depth, n=None):
        saved = list(self.vars)
        self.body(ind, n or self.r.randint(1, 3), depth)
        self.vars = saved

    def block(self, ind, depth):
        r = self.r
        kind = r.choice(BLOCKS)
        self.feats['block:' + kind] = self.feats.get('block:' + kind, 0) + 1
        P = '    ' * ind
        a, b = r.choice(self.vars), r.choice(self.vars)
        L = self.lines
        if kind in ('for', 'for_break', 'for_else'):
            x = self.newvar()
            L.append(P + 'for %s in %s:' % (x, a))
            saved = list(self.vars)
            self.vars.append(x)
            self.body(ind + 1, r.randint(1, 2), depth)
            if kind == 'for_break':
                L.append(P + '    if %s:' % x)
                L.append(P + '        break')
            self.vars = saved
            if kind == 'for_else':
                L.append(P + 'else:')
                self.sub(ind + 1, depth, 1)
        elif kind == 'for_unpack':
            x, y = self.newvar(), self.newvar()
            if r.random() < 0.5:
                L.append(P + 'for %s, %s in [(%s, %s), (%s, %s)]:' % (x, y, a, b, b, a))
            else:
                L.append(P + 'for %s, %s in [mk(2), mk(6), %s]:' % (x, y, a))
            saved = list(self.vars)
            self.vars += [x, y]
            self.body(ind + 1, 1, depth)
            self.vars = saved
        elif kind == 'while':
            cnt = self.newvar()
            L.append(P + '%s = 0' % cnt)
            L.append(P + 'while %s < 2 and %s:' % (cnt, a))
            L.append(P + '    %s += 1' % cnt)
            self.sub(ind + 1, depth)
        elif kind == 'if':
            L.append(P + 'if %s:' % r.choice([a, '%s < %s' % (a, b), '%s == %s' % (a, b), 'not %s' % a, '%s in %s' % (a, b)]))
            self.sub(ind + 1, depth)
            if r.random() < 0.5:
                L.append(P + 'else:')
                self.sub(ind + 1, depth)
        elif kind == 'try_except':
            L.append(P + 'try:')
            self.sub(ind + 1, depth)
            ev = self.newvar()
            L.append(P + 'except %s as %s:' % (r.choice(['Injected', 'Exception', '(KeyError, Injected)']), ev))
            L.append(P + '    log(("caught", type(%s).__name__))' % ev)
            if r.random() < 0.4:
                self.sub(ind + 1, depth, 1)
            if r.random() < 0.3:
                L.append(P + '    raise')
        elif kind == 'try_finally':
            L.append(P + 'try:')
            self.sub(ind + 1, depth)
            L.append(P + 'finally:')
            L.append(P + '    log("fin")')
            if r.random() < 0.5:
                self.sub(ind + 1, depth, 1)
        elif kind == 'nested_try':
            L.append(P + 'try:')
            L.append(P + '    try:')
            self.sub(ind + 2, depth, 1)
            L.append(P + '    finally:')
            self.sub(ind + 2, depth, 1)
            L.append(P + 'except Injected:')
            L.append(P + '    log("outer")')
            self.sub(ind + 1, depth, 1)
        elif kind == 'with':
            a, b = r.choice('abc'), r.choice('abc')
            L.append(P + 'with %s:' % a)
            self.sub(ind + 1, depth)
        elif kind == 'with_as':
            a, b = r.choice('abc'), r.choice('abc')
            x = self.newvar()
            L.append(P + 'with %s as %s, %s:' % (a, x, b))
            saved = list(self.vars)
            self.vars.append(x)
            self.body(ind + 1, r.randint(1, 2), depth)
            self.vars = saved
        elif kind == 'closure':
            fn, x = self.newvar(), self.newvar()
            L.append(P + 'def %s(z, w=%s):' % (fn, a))
            L.append(P + '    return z + w + %s' % b)
            L.append(P + '%s = %s(%s)' % (x, fn, r.choice(self.vars)))
            self.vars.append(x)
        elif kind == 'genfunc':
            fn, x = self.newvar(), self.newvar()
            L.append(P + 'def %s(q):' % fn)
            L.append(P + '    try:')
            L.append(P + '        for it in q:')
            L.append(P + '            yield it + %s' % a)
            L.append(P + '    finally:')
            L.append(P + '        log("genfin")')
            mode = r.choice(['list', 'next', 'abandon'])
            if mode == 'list':
                L.append(P + '%s = list(%s(%s))' % (x, fn, b))
            elif mode == 'next':
                L.append(P + '%s = next(%s(%s), None)' % (x, fn, b))
            else:
                g = self.newvar()
                L.append(P + '%s = %s(%s)' % (g, fn, b))
                L.append(P + '%s = next(%s, None)' % (x, g))
                L.append(P + '%s.close()' % g)
            self.vars.append(x)


HEADER = '''# cython: language_level=3
from frt import T, Injected

def log(*xs):
    return None

def mk(v):
    return T(v)

'''


def gen_module(rng, nfuncs):
    g = Gen(rng)
    parts = [HEADER]
    names = []
    for i in range(nfuncs):
        name = 'fz%dz' % i
        parts.append(g.function(name))
        names.append(name)
    return '\n'.join(parts), names, g.feats
