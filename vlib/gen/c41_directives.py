"""Generator of .pyx modules that nest semantics-changing compiler directives at five levels (default, option,
`# cython:` header, decorator - also several stacked decorators of the same directive on one function/class -, with-block) plus the resolver that predicts which setting governs every probe (C41)."""

DEFAULTS = {'cdivision': False, 'boundscheck': True, 'wraparound': True, 'overflowcheck': False, 'cpow': False,
            'nonecheck': False, 'binding': True, 'embedsignature': False, 'always_allow_keywords': True,
            'c_string_type': 'bytes'}
STMT_FAMILIES = {'cdivision': ['cdivision'], 'bounds': ['boundscheck', 'wraparound'], 'overflowcheck': ['overflowcheck'],
                 'cpow': ['cpow'], 'nonecheck': ['nonecheck']}
FUNC_DIRECTIVES = ['binding', 'embedsignature', 'always_allow_keywords']
BIG = [10, 11, 12, 13, 14, 15, 16, 17, 18, 19]      # harness-owned allocation; the probed view is BIG[2:6]

PRELUDE = '''cimport cython


cdef class Ext:
    cdef public int x
'''


def observe_model(kind, env):
    """Observation a probe of `kind` must yield when the directive values in env govern it."""
    if kind == 'cdivision':
        return -3 if env['cdivision'] else -4
    if kind == 'overflowcheck':
        return 'OverflowError' if env['overflowcheck'] else -2147483648
    if kind == 'cpow':
        return '4' if env['cpow'] else '4.0'
    if kind == 'nonecheck':
        return 'AttributeError' if env['nonecheck'] else 'not-run'
    if kind == 'bounds_hi':
        return 'IndexError' if env['boundscheck'] else BIG[6]
    if kind == 'bounds_neg':
        if env['wraparound']:
            return BIG[5]
        return 'IndexError' if env['boundscheck'] else BIG[1]
    raise ValueError(kind)


PROBE_EXPR = {'cdivision': 'a // b', 'overflowcheck': 'a + b', 'cpow': 'repr(a ** b)', 'nonecheck': 'o.x',
              'bounds_hi': 'v[i]', 'bounds_neg': 'v[j]'}
SIGNATURE = {'cdivision': 'int a, int b', 'overflowcheck': 'int a, int b', 'cpow': 'int a, int b', 'nonecheck': 'obj, int mask',
             'bounds': 'unsigned char[:] big, int i, int j'}
CALL_ARGS = {'cdivision': '(-7, 2)', 'overflowcheck': '(2147483647, 1)', 'cpow': '(2, 2)', 'nonecheck': None,
             'bounds': '(bytearray(%r), 4, -1)' % (BIG,)}


class Env:
    """value and the chain of levels that set it (innermost last)"""

    def __init__(self, defaults, option, header):
        self.val = {}
        self.lv = {}
        for d, v in defaults.items():
            self.val[d] = v
            self.lv[d] = ['default']
        for d, v in option.items():
            self.val[d] = v
            self.lv[d] = self.lv[d] + ['option']
        for d, v in header.items():
            self.val[d] = v
            self.lv[d] = self.lv[d] + ['header']

    def push(self, d, v, level):
        old = (self.val[d], self.lv[d])
        self.val[d] = v
        self.lv[d] = self.lv[d] + [level]
        return old

    def pop(self, d, old):
        self.val[d], self.lv[d] = old


def indent(lines, n=1):
    return [('    ' * n + ln) if ln else ln for ln in lines]


class ModGen:
    def __init__(self, rng, option, header):
        self.rng = rng
        self.option = option
        self.header = header
        self.n = 0
        self.probes = []        # {name, call, expected, points: [{directive, levels, position}], family}
        self.pairs = {}

    def fresh(self, p):
        self.n += 1
        return '%s%d' % (p, self.n)

    def note_pair(self, levels):
        gov = levels[-1]
        outer = levels[-2] if len(levels) > 1 else 'none'
        k = '%s>%s' % (outer, gov)
        self.pairs[k] = self.pairs.get(k, 0) + 1

    def deco_stack(self, dirs, env, p_each):
        """Decorator lines (source order, outermost first) for one function/class.  Each directive of `dirs` gets, with
        probability p_each, a stack of 1-3 decorators with independent random values (so the outermost one may restore the
        enclosing value, repeat the inner one, or flip it); stacks of different directives are interleaved.  "Decorators
        coming first take precedence": env receives the settings innermost first, the outermost one governs.  The innermost
        decorator of a directive is level 'decorator', the ones stacked on top of it 'stacked-decorator'."""
        rng = self.rng
        entries = []
        for d in dirs:
            if rng.random() < p_each:
                n = rng.choice([1, 1, 1, 2, 2, 2, 3])
                entries += [(d, rng.random() < 0.5) for _ in range(n)]
        rng.shuffle(entries)
        seen = set()
        for d, v in reversed(entries):
            env.push(d, v, 'stacked-decorator' if d in seen else 'decorator')
            seen.add(d)
        return ['@cython.%s(%s)' % (d, v) for d, v in entries]

    # ------------------------------------------------------------------ statement-level families
    def block(self, fam, env, depth, pts, npoints, after_block=False):
        """returns source lines of a statement block; appends expected observations to pts"""
        rng = self.rng
        dirs = STMT_FAMILIES[fam]
        lines = []
        n_items = rng.randint(1, 3)
        for _ in range(n_items):
            if depth < 3 and rng.random() < 0.2:
                # a block of an unrelated directive: must not disturb the settings of this family, inside or after it
                other = rng.choice([d for fam2, ds in STMT_FAMILIES.items() if fam2 != fam for d in ds if d != 'nonecheck'])
                lines.append('with cython.%s(%s):' % (other, rng.random() < 0.5))
                lines += indent(self.block(fam, env, depth + 1, pts, npoints))
                lines += self.probe(fam, env, pts, npoints, 'after-unrelated-block')
            elif depth < 3 and rng.random() < 0.55:
                items = []
                olds = []
                for d in rng.sample(dirs, rng.randint(1, len(dirs))):
                    v = rng.random() < 0.5
                    items.append('cython.%s(%s)' % (d, v))
                    olds.append((d, env.push(d, v, 'with')))
                lines.append('with %s:' % ', '.join(items))
                lines += indent(self.block(fam, env, depth + 1, pts, npoints))
                for d, old in reversed(olds):
                    env.pop(d, old)
                # a probe right after the block: the outer setting must be back in force
                lines += self.probe(fam, env, pts, npoints, 'after-nested-block')
            else:
                lines += self.probe(fam, env, pts, npoints, 'inside')
        return lines

    def probe(self, fam, env, pts, npoints, position):
        kinds = ['bounds_hi', 'bounds_neg'] if fam == 'bounds' else [fam]
        kind = self.rng.choice(kinds)
        exp = observe_model(kind, env.val)
        idx = len(pts)
        dirs = STMT_FAMILIES[fam]
        main_dir = 'wraparound' if kind == 'bounds_neg' else dirs[0]
        pts.append({'expected': exp, 'directive': main_dir, 'levels': list(env.lv[main_dir]), 'position': position,
                    'kind': kind, 'env': {d: env.val[d] for d in dirs}, 'levels_by_directive': {d: list(env.lv[d]) for d in dirs}})
        self.note_pair(env.lv[main_dir])
        body = ['try:', '    out.append(%s)' % PROBE_EXPR[kind], 'except (IndexError, OverflowError, AttributeError) as exc:',
                '    out.append(type(exc).__name__)']
        if fam == 'nonecheck':
            # executed only where the model says the check is on (an unchecked access of None would be undefined)
            return ['if mask & %d:' % (1 << idx)] + indent(body) + ['else:', "    out.append('not-run')"]
        return body

    def stmt_probe(self, fam):
        rng = self.rng
        env = Env(DEFAULTS, self.option, self.header)
        dirs = STMT_FAMILIES[fam]
        name = self.fresh('p')
        pre = []
        in_class = rng.random() < 0.3
        cls_lines = None
        if in_class:
            cname = self.fresh('C')
            cdecs = self.deco_stack([rng.choice(dirs)], env, 0.6)
            cls_lines = cdecs + ['%sclass %s:' % (rng.choice(['', '', 'cdef ']), cname)]
        decs = self.deco_stack(dirs, env, 0.5)
        pts = []
        sig = SIGNATURE['bounds' if fam == 'bounds' else fam]
        body = ['out = []']
        if fam == 'bounds':
            body.append('cdef unsigned char[:] v = big[2:6]')
        if fam == 'nonecheck':
            body.append('cdef Ext o = obj')
        body += self.block(fam, env, 1, pts, None)
        body.append('return out')
        if in_class:
            fn = decs + ['def %s(self, %s):' % (name, sig)] + indent(body)
            lines = cls_lines + indent(fn)
            call_target = '%s().%s' % (cname, name)
        else:
            lines = decs + ['def %s(%s):' % (name, sig)] + indent(body)
            call_target = name
        if fam == 'nonecheck':
            mask = sum(1 << i for i, p in enumerate(pts) if p['expected'] != 'not-run')
            args = '(None, %d)' % mask
        else:
            args = CALL_ARGS['bounds' if fam == 'bounds' else fam]
        self.probes.append({'name': name, 'family': fam, 'call': 'M.%s%s' % (call_target, args),
                            'expected': [p['expected'] for p in pts], 'points': pts, 'c_token': name,
                            'static_nonecheck': sum(1 for p in pts if p['expected'] == 'AttributeError') if fam == 'nonecheck' else None})
        return lines

    # ------------------------------------------------------------------ function-level directives
    def func_probe(self, d):
        """a module-level function (or method) whose own properties reveal the governing value of directive d"""
        rng = self.rng
        env = Env(DEFAULTS, self.option, self.header)
        name = self.fresh('f')
        wrappers = []
        for _ in range(rng.choice([0, 0, 1, 1, 2])):
            v = rng.random() < 0.5
            wrappers.append('with cython.%s(%s):' % (d, v))
            env.push(d, v, 'with')
        # binding: Cython always binds methods of Python classes; always_allow_keywords only matters for functions with
        # exactly one argument (self counts), so both are probed on module-level functions only
        use_class = d == 'embedsignature' and rng.random() < 0.5
        lines = []
        if use_class:
            cname = self.fresh('K')
            cl = self.deco_stack([d], env, 0.6)
            cl.append('class %s:' % cname)
            fl = self.deco_stack([d], env, 0.5)
            fl += ['def %s(self, x):' % name, '    return x']
            lines = cl + indent(fl)
            target = "%s().%s" % (cname, name)
        else:
            fl = self.deco_stack([d], env, 0.6)
            fl += ['def %s(x):' % name, '    return x']
            lines = fl
            target = name
        for w in reversed(wrappers):
            lines = [w] + indent(lines)
        exp = env.val[d]
        self.note_pair(env.lv[d])
        self.probes.append({'name': name, 'family': d, 'call': 'obs_func(M, %r, %r)' % (d, target), 'expected': [exp],
                            'points': [{'expected': exp, 'directive': d, 'levels': list(env.lv[d]), 'position': 'function',
                                        'kind': d, 'env': {d: exp}}], 'c_token': name, 'static_nonecheck': None})
        return lines

    def cstring_probe(self):
        env = Env(DEFAULTS, self.option, self.header)
        name = self.fresh('s')
        exp = {'bytes': 'bytes', 'bytearray': 'bytearray', 'str': 'str', 'unicode': 'str'}[env.val['c_string_type']]
        self.note_pair(env.lv['c_string_type'])
        self.probes.append({'name': name, 'family': 'c_string_type', 'call': 'type(M.%s()).__name__' % name, 'expected': exp,
                            'points': [{'expected': exp, 'directive': 'c_string_type', 'levels': list(env.lv['c_string_type']),
                                        'position': 'module', 'kind': 'c_string_type', 'env': {}}], 'c_token': name,
                            'static_nonecheck': None})
        return ['def %s():' % name, '    cdef char* s = b"abc"', '    return s']


def gen_module(rng, per_family):
    """returns dict(source, option, header, probes, pairs)"""
    option, header = {}, {}
    for d in list(DEFAULTS):
        if d == 'c_string_type':
            continue
        r = rng.random()
        if r < 0.35:
            option[d] = rng.random() < 0.5
        r = rng.random()
        if r < 0.35:
            header[d] = rng.random() < 0.5
    if rng.random() < 0.5:
        option['c_string_type'] = rng.choice(['bytes', 'bytearray', 'str', 'unicode'])
    if rng.random() < 0.4:
        header['c_string_type'] = rng.choice(['bytes', 'bytearray', 'str', 'unicode'])
    extra_header = {}
    if option.get('c_string_type') in ('str', 'unicode'):
        option['c_string_encoding'] = 'utf8'
    if header.get('c_string_type') in ('str', 'unicode'):
        extra_header['c_string_encoding'] = rng.choice(['utf8', 'ascii', 'UTF-8', 'default'])
    g = ModGen(rng, {k: v for k, v in option.items() if k in DEFAULTS}, header)
    chunks = []
    kinds = []
    for fam in STMT_FAMILIES:
        kinds += [('stmt', fam)] * per_family
    for d in FUNC_DIRECTIVES:
        kinds += [('func', d)] * per_family
    kinds += [('cstr', None)] * 2
    rng.shuffle(kinds)
    for k, x in kinds:
        if k == 'stmt':
            chunks.append(g.stmt_probe(x))
        elif k == 'func':
            chunks.append(g.func_probe(x))
        else:
            chunks.append(g.cstring_probe())
    # header comment lines (one directive list, or several lines)
    items = ['%s=%s' % (d, v) for d, v in list(header.items()) + list(extra_header.items())]
    rng.shuffle(items)
    hl = []
    while items:
        n = rng.randint(1, min(3, len(items)))
        sep = rng.choice([', ', ',', ' , '])
        hl.append('# cython: ' + sep.join(items[:n]))
        items = items[n:]
    src = '\n'.join(hl + [PRELUDE] + ['\n'.join(c) + '\n\n' for c in chunks])
    return {'source': src, 'option': option, 'header': dict(header, **extra_header), 'probes': g.probes, 'pairs': g.pairs}
