"""Generator of *valid* Python 3.12 modules, built as `ast` trees with a scope model and unparsed to text.

    gen = ModuleGen(random.Random(seed), profile='mixed')
    text, info = gen.module()          # info: {'kinds': Counter of ast node class names, 'features': [...]}

Guarantees by construction (and the caller confirms validity with CPython's compile()):
  * every name that is read is bound somewhere the compiler can see: module globals are all bound at module level
    (the pool g0.. is assigned at the top of the module), locals are read only where they are definitely assigned
    (structured data-flow over if/loops/try/with/match), closures read only enclosing locals that are definitely
    assigned at the point of the inner definition and are never deleted;
  * name pools are disjoint per role (globals g*, functions f*, classes C*, locals v<k>_*, parameters p<k>_*,
    comprehension variables c*, lambda parameters l*, exception names e*, with names w*, match captures m*), so a
    global that is read inside a function is never also a local of that function;
  * `del` is applied only to temporaries created for that purpose (never to a name visible to a nested scope);
  * operands are type-sane by default (the 'hostile' profile deliberately mixes literal operand types, which
    CPython still compiles), multipliers/shift counts/exponents are small, no statement can be executed by the
    generator's consumers anyway (programs are only compiled).

Profiles: 'mixed' (everything), 'names' (many globals/closures/classes/string constants/optimised builtin method
calls: for determinism checks), 'hostile' (type-insane literal operands and other legal-but-odd constructs).
"""
import ast
import collections

BUILTIN_FUNCS = ['len', 'abs', 'min', 'max', 'sum', 'sorted', 'repr', 'str', 'int', 'float', 'bool', 'list', 'tuple',
                 'dict', 'set', 'print', 'isinstance', 'getattr', 'hasattr', 'range', 'enumerate', 'zip', 'iter',
                 'next', 'type', 'id', 'hash', 'ord', 'chr', 'divmod', 'pow', 'round', 'any', 'all', 'reversed',
                 'bytes', 'bytearray', 'frozenset', 'object', 'callable', 'map', 'filter', 'format', 'vars', 'super']
EXC_NAMES = ['ValueError', 'TypeError', 'KeyError', 'IndexError', 'Exception', 'RuntimeError', 'StopIteration',
             'ZeroDivisionError', 'AttributeError', 'OSError', 'LookupError', 'ArithmeticError']
STR_METHODS = ['upper', 'lower', 'strip', 'split', 'join', 'replace', 'startswith', 'endswith', 'find', 'format',
               'encode', 'isdigit', 'title', 'count']
LIST_METHODS = ['append', 'extend', 'pop', 'insert', 'index', 'count', 'sort', 'reverse', 'copy', 'clear']
DICT_METHODS = ['get', 'keys', 'values', 'items', 'pop', 'setdefault', 'update', 'copy']
SET_METHODS = ['add', 'discard', 'union', 'intersection', 'copy', 'pop']
MODULES = ['os', 'sys', 'math', 'collections', 'itertools', 'functools', 'os.path', 'json']
ATTRS = ['alpha', 'beta', 'gamma', 'value', 'items', 'name', 'x', 'y', 'data_', '_private', '__dunder__']
NUM_KINDS = ('int', 'float', 'bool')
ALL_KINDS = ('int', 'float', 'str', 'bytes', 'bool', 'list', 'tuple', 'dict', 'set', 'none', 'any')

_L = ast.Load()
_S = ast.Store()
_D = ast.Del()


def Name(n, ctx=_L):
    return ast.Name(id=n, ctx=ctx)


def Const(v):
    return ast.Constant(value=v)


class Scope:
    def __init__(self, kind, parent=None, idx=0):
        self.kind = kind              # module | function | class | lambda | comp
        self.parent = parent
        self.idx = idx
        self.assigned = {}            # name -> kind; definitely assigned at the current point
        self.globals_declared = set()
        self.nonlocals = set()
        self.counter = 0
        self.is_async = False
        self.is_generator = False
        self.loop_depth = 0
        self.in_except = 0
        self.in_finally = 0
        self.in_class_body = kind == 'class'
        self.pending = []             # names bound by := inside the statement being generated (readable after it)

    def func_scope(self):
        s = self
        while s is not None and s.kind not in ('function', 'module', 'lambda'):
            s = s.parent
        return s


class ModuleGen:
    def __init__(self, rng, profile='mixed', size=1.0, py312=True):
        self.r = rng
        self.profile = profile
        self.size = size
        self.py312 = py312
        self.nfunc = self.nclass = self.ncomp = self.nlam = self.nexc = self.nwith = self.nmatch = self.ntmp = 0
        self.globals = {}             # name -> kind (all bound at module top)
        self.funcs = {}               # global function name -> (npos_min, npos_max, kwnames, has_var, has_kw)
        self.classes = []
        self.features = set()
        self.budget = 0

    # ------------------------------------------------------------------ helpers
    def chance(self, p):
        return self.r.random() < p

    def pick(self, seq):
        return seq[self.r.randrange(len(seq))]

    def weighted(self, pairs):
        tot = sum(w for _, w in pairs)
        x = self.r.random() * tot
        for v, w in pairs:
            x -= w
            if x <= 0:
                return v
        return pairs[-1][0]

    def spend(self, n=1):
        self.budget -= n
        return self.budget > 0

    # ------------------------------------------------------------------ readable names
    def readable(self, sc, kinds=None):
        """names that may be read at this point in scope sc -> list of (name, kind)"""
        out = []
        seen = set()
        s = sc
        first = True
        while s is not None:
            if s.kind == 'class' and not first:
                s = s.parent      # class scopes are invisible to nested scopes
                continue
            for n, k in s.assigned.items():
                if n not in seen:
                    seen.add(n)
                    out.append((n, k))
            first = False
            s = s.parent
        for n, k in self.globals.items():
            if n not in seen:
                seen.add(n)
                out.append((n, k))
        if kinds:
            out = [(n, k) for n, k in out if k in kinds or k == 'any']
        return out

    def read_name(self, sc, kinds=None):
        c = self.readable(sc, kinds)
        if not c:
            return None, None
        n, k = self.pick(c)
        return Name(n), k

    def new_local(self, sc, prefix='v'):
        fs = sc if sc.kind in ('function', 'module', 'class') else sc.func_scope()
        fs.counter += 1
        if fs.kind == 'module':
            return 'mv%d' % fs.counter
        if fs.kind == 'class':
            return 'a%d_%d' % (fs.idx, fs.counter)
        return '%s%d_%d' % (prefix, fs.idx, fs.counter)

    # ------------------------------------------------------------------ literals
    def lit_int(self):
        r = self.r
        return Const(self.weighted([(r.randrange(0, 10), 5), (r.randrange(0, 1000), 3), (r.getrandbits(31), 1),
                                    (r.getrandbits(64), 1), (r.getrandbits(200), 0.5), (0, 1), (1, 1), (255, 0.5),
                                    (2 ** 31 - 1, 0.3), (2 ** 63, 0.3)]))

    def lit_float(self):
        r = self.r
        return Const(self.weighted([(round(r.uniform(-100, 100), 3), 4), (0.0, 1), (1e308, 0.3), (1e-320, 0.3),
                                    (float(r.randrange(1000)), 1), (r.random() * 10 ** r.randrange(-30, 30), 1),
                                    (float('inf'), 0.2), (0.5, 1)]))

    def lit_str(self):
        r = self.r
        pool = ['', 'a', 'abc', 'hello world', 'key', 'x' * r.randrange(1, 40), '%s', '{}', 'é', 'ü' * 3, '日本語',
                '\U0001f600', 'tab\there', 'nl\nline', 'quote\'s', 'dq"s', 'back\\slash', '\x00nul', '\x7f', '\xff',
                ' ', 'name%d' % r.randrange(100), 'attr_%d' % r.randrange(20), ' ', '\r\n', '{{}}', '%%', '%(a)s']
        return Const(self.pick(pool))

    def lit_bytes(self):
        pool = [b'', b'a', b'abc', b'\x00\xff', b'key', b'%d', b'\n', b'quote\'s', b'\\', bytes(range(0, 256, 17))]
        return Const(self.pick(pool))

    def literal(self, kind):
        r = self.r
        if kind == 'int':
            return self.lit_int()
        if kind == 'float':
            return self.lit_float()
        if kind == 'str':
            return self.lit_str()
        if kind == 'bytes':
            return self.lit_bytes()
        if kind == 'bool':
            return Const(self.chance(.5))
        if kind == 'none':
            return Const(None)
        if kind == 'complex':
            return Const(complex(0, round(r.uniform(0, 9), 2)))
        if kind == 'ellipsis':
            return Const(Ellipsis)
        return self.lit_int()

    # ------------------------------------------------------------------ expressions
    def expr(self, sc, kind='any', depth=0):
        """an expression whose value is (plausibly) of `kind`"""
        self.spend()
        maxd = 4 if self.budget > 0 else 0
        if kind == 'any':
            kind = self.weighted([('int', 5), ('str', 4), ('float', 2), ('bool', 2), ('list', 2), ('tuple', 1.5),
                                  ('dict', 1.5), ('set', .7), ('none', .5), ('bytes', .7), ('obj', 3)])
        if depth >= maxd:
            return self.atom(sc, kind)
        if self.profile == 'hostile' and self.chance(.06):
            return self.insane(sc, depth)
        m = getattr(self, 'e_' + kind, None)
        return m(sc, depth) if m else self.atom(sc, kind)

    def insane(self, sc, depth):
        """legal but type-insane expressions on literal operands (CPython compiles them; they fail at run time)"""
        self.features.add('insane')
        lits = [Const(0.5), Const('a'), Const(None), Const(b'b'), ast.List(elts=[], ctx=_L), ast.Dict(keys=[], values=[]),
                Const(1), Const(True), ast.Tuple(elts=[Const(1)], ctx=_L), Const(Ellipsis), Const(2j)]
        f = self.pick(('unary', 'binop', 'compare', 'subscript', 'call', 'attr', 'starcall', 'fstring'))
        a, b = self.pick(lits), self.pick(lits)
        if f == 'unary':
            return ast.UnaryOp(op=self.pick((ast.Invert(), ast.USub(), ast.UAdd())), operand=a)
        if f == 'binop':
            return ast.BinOp(left=a, op=self.pick((ast.Sub(), ast.Add(), ast.Mult(), ast.MatMult(), ast.Div(), ast.Mod(),
                                                   ast.LShift(), ast.BitAnd(), ast.Pow(), ast.FloorDiv())), right=b)
        if f == 'compare':
            return ast.Compare(left=a, ops=[self.pick((ast.Lt(), ast.GtE(), ast.In(), ast.Is()))], comparators=[b])
        if f == 'subscript':
            return ast.Subscript(value=a, slice=b, ctx=_L)
        if f == 'call':
            return ast.Call(func=a, args=[b], keywords=[])
        if f == 'attr':
            return ast.Attribute(value=a, attr=self.pick(('real', 'foo', 'append', 'upper')), ctx=_L)
        if f == 'starcall':
            return ast.Call(func=Name('print'), args=[ast.Starred(value=a, ctx=_L)], keywords=[ast.keyword(arg=None, value=b)])
        return ast.JoinedStr(values=[ast.FormattedValue(value=a, conversion=-1, format_spec=ast.JoinedStr(values=[Const('>{}<')]) if False else None)])

    def atom(self, sc, kind):
        if kind == 'obj':
            n, _ = self.read_name(sc)
            return n or Const(None)
        if self.chance(.45):
            n, _ = self.read_name(sc, (kind,))
            if n is not None:
                return n
        if kind == 'list':
            return ast.List(elts=[self.literal('int') for _ in range(self.r.randrange(3))], ctx=_L)
        if kind == 'tuple':
            return ast.Tuple(elts=[self.literal(self.pick(('int', 'str'))) for _ in range(self.r.randrange(3))], ctx=_L)
        if kind == 'dict':
            n = self.r.randrange(3)
            return ast.Dict(keys=[Const('k%d' % i) for i in range(n)], values=[self.literal('int') for _ in range(n)])
        if kind == 'set':
            return ast.Set(elts=[self.literal('int') for _ in range(1 + self.r.randrange(2))])
        return self.literal(kind)

    def common(self, sc, kind, depth):
        """expression forms that can yield any kind: call, conditional, subscript, attribute, walrus, await, ..."""
        r = self.r
        form = self.weighted([('call', 4), ('ifexp', 1.5), ('subscript', 2), ('attr', 2), ('walrus', .6), ('boolop', 1),
                              ('await', .8 if sc.func_scope().is_async and sc.kind != 'lambda' else 0), ('lambda_call', .3),
                              ('yield', .5 if self.can_yield(sc) else 0), ('paren_star_call', .5)])
        if form == 'call':
            return self.call(sc, depth)
        if form == 'ifexp':
            return ast.IfExp(test=self.expr(sc, 'bool', depth + 1), body=self.expr(sc, kind, depth + 1),
                             orelse=self.expr(sc, kind, depth + 1))
        if form == 'subscript':
            base = self.expr(sc, self.pick(('list', 'dict', 'tuple', 'obj', 'str')), depth + 1)
            return ast.Subscript(value=base, slice=self.slice(sc, depth + 1), ctx=_L)
        if form == 'attr':
            return ast.Attribute(value=self.expr(sc, 'obj', depth + 1), attr=self.pick(ATTRS), ctx=_L)
        if form == 'walrus' and self.can_walrus(sc):
            tgt = self.walrus_target(sc)
            if tgt:
                val = self.expr(sc, kind, depth + 1)
                sc.pending.append(tgt)
                return ast.NamedExpr(target=Name(tgt, _S), value=val)
        if form == 'boolop':
            return ast.BoolOp(op=self.pick((ast.And(), ast.Or())),
                              values=[self.expr(sc, kind, depth + 1) for _ in range(2 + r.randrange(2))])
        if form == 'await':
            return ast.Await(value=self.call(sc, depth + 1))
        if form == 'yield':
            sc.func_scope().is_generator = True
            if self.chance(.3) and not sc.func_scope().is_async:
                return ast.YieldFrom(value=self.expr(sc, 'list', depth + 1))
            return ast.Yield(value=self.expr(sc, kind, depth + 1) if self.chance(.8) else None)
        if form == 'lambda_call':
            return ast.Call(func=self.lambda_(sc, depth + 1, nargs=1), args=[self.expr(sc, kind, depth + 1)], keywords=[])
        return self.call(sc, depth)

    def can_yield(self, sc):
        fs = sc.func_scope()
        return sc.kind == 'function' and fs.kind == 'function' and not sc.in_class_body and not getattr(fs, 'no_yield', False)

    def can_walrus(self, sc):
        # not in class bodies' comprehensions; plain function/module statement context only
        s = sc
        while s is not None and s.kind in ('comp', 'lambda'):
            s = s.parent
            if s is not None and s.kind == 'class':
                return False
        return sc.kind in ('function', 'module') and not getattr(sc, 'no_walrus', False)

    def walrus_target(self, sc):
        if sc.kind == 'module':
            return None
        return self.new_local(sc, 'v')

    def bind(self, sc, name, kind):
        sc.assigned[name] = kind

    def mark(self, sc):
        fs = sc if sc.kind in ('function', 'module') else None
        return (fs, len(fs.pending)) if fs is not None else (None, 0)

    def discard(self, m):
        """forget the := bindings made by an expression that is being thrown away"""
        fs, n = m
        if fs is not None:
            del fs.pending[n:]

    def e_int(self, sc, depth):
        r = self.r
        f = self.weighted([('lit', 3), ('name', 3), ('binop', 5), ('unary', 1), ('common', 2), ('len', 1), ('cmpchain', .3)])
        if f == 'lit':
            return self.lit_int()
        if f == 'name':
            return self.atom(sc, 'int')
        if f == 'binop':
            op = self.weighted([(ast.Add(), 4), (ast.Sub(), 3), (ast.Mult(), 3), (ast.FloorDiv(), 1.5), (ast.Mod(), 1.5),
                                (ast.BitAnd(), 1), (ast.BitOr(), 1), (ast.BitXor(), 1), (ast.LShift(), .7),
                                (ast.RShift(), .7), (ast.Pow(), .7)])
            left = self.expr(sc, 'int', depth + 1)
            if isinstance(op, (ast.LShift, ast.RShift, ast.Pow)):
                right = Const(r.randrange(0, 9))
            else:
                right = self.expr(sc, self.weighted([('int', 5), ('bool', .5)]), depth + 1)
            return ast.BinOp(left=left, op=op, right=right)
        if f == 'unary':
            return ast.UnaryOp(op=self.pick((ast.USub(), ast.UAdd(), ast.Invert())), operand=self.expr(sc, 'int', depth + 1))
        if f == 'len':
            return ast.Call(func=Name('len'), args=[self.expr(sc, self.pick(('list', 'str', 'dict', 'tuple')), depth + 1)], keywords=[])
        return self.common(sc, 'int', depth)

    def e_float(self, sc, depth):
        f = self.weighted([('lit', 3), ('name', 2), ('binop', 4), ('common', 1.5), ('unary', .7)])
        if f == 'lit':
            return self.lit_float()
        if f == 'name':
            return self.atom(sc, 'float')
        if f == 'binop':
            op = self.pick((ast.Add(), ast.Sub(), ast.Mult(), ast.Div(), ast.Mod(), ast.FloorDiv()))
            return ast.BinOp(left=self.expr(sc, self.pick(('float', 'int')), depth + 1), op=op,
                             right=self.expr(sc, 'float', depth + 1))
        if f == 'unary':
            return ast.UnaryOp(op=self.pick((ast.USub(), ast.UAdd())), operand=self.expr(sc, 'float', depth + 1))
        return self.common(sc, 'float', depth)

    def e_bool(self, sc, depth):
        r = self.r
        f = self.weighted([('lit', 1), ('cmp', 5), ('not', 1.5), ('boolop', 2), ('isinstance', 1), ('name', 1.5), ('common', 1)])
        if f == 'lit':
            return Const(self.chance(.5))
        if f == 'name':
            return self.atom(sc, 'bool')
        if f == 'not':
            return ast.UnaryOp(op=ast.Not(), operand=self.expr(sc, 'any', depth + 1))
        if f == 'boolop':
            return ast.BoolOp(op=self.pick((ast.And(), ast.Or())),
                              values=[self.expr(sc, 'bool', depth + 1) for _ in range(2 + r.randrange(2))])
        if f == 'isinstance':
            return ast.Call(func=Name('isinstance'), args=[self.expr(sc, 'obj', depth + 1),
                                                           self.pick((Name('int'), Name('str'), ast.Tuple(elts=[Name('list'), Name('tuple')], ctx=_L)))],
                            keywords=[])
        if f == 'cmp':
            k = self.pick(('int', 'int', 'str', 'float', 'obj'))
            n = 1 + (r.randrange(3) == 0) + (r.randrange(8) == 0)
            ops = []
            comps = []
            for _ in range(n):
                form = self.weighted([('ord', 4), ('eq', 3), ('is', 1), ('in', 1.5)])
                if form == 'ord':
                    ops.append(self.pick((ast.Lt(), ast.LtE(), ast.Gt(), ast.GtE())))
                    comps.append(self.expr(sc, k if k != 'obj' else 'int', depth + 1))
                elif form == 'eq':
                    ops.append(self.pick((ast.Eq(), ast.NotEq())))
                    comps.append(self.expr(sc, k, depth + 1))
                elif form == 'is':
                    ops.append(self.pick((ast.Is(), ast.IsNot())))
                    comps.append(self.pick((Const(None), Const(None), self.expr(sc, 'obj', depth + 1))))
                else:
                    ops.append(self.pick((ast.In(), ast.NotIn())))
                    comps.append(self.expr(sc, self.pick(('list', 'tuple', 'dict', 'set', 'obj')), depth + 1))
            return ast.Compare(left=self.expr(sc, k, depth + 1), ops=ops, comparators=comps)
        return self.common(sc, 'bool', depth)

    def e_str(self, sc, depth):
        r = self.r
        f = self.weighted([('lit', 4), ('name', 2), ('concat', 2), ('mul', .7), ('percent', 1.2), ('fstring', 3),
                           ('method', 2), ('common', 1.5), ('strcall', 1), ('slice', 1)])
        if f == 'lit':
            return self.lit_str()
        if f == 'name':
            return self.atom(sc, 'str')
        if f == 'concat':
            return ast.BinOp(left=self.expr(sc, 'str', depth + 1), op=ast.Add(), right=self.expr(sc, 'str', depth + 1))
        if f == 'mul':
            return ast.BinOp(left=self.expr(sc, 'str', depth + 1), op=ast.Mult(), right=Const(r.randrange(0, 4)))
        if f == 'percent':
            fmt = self.pick(['%s', '%d items', '%r', '%5.2f', '%s=%s', '%(key)s', '%x', '%-10s|', '%%'])
            if fmt == '%s=%s':
                arg = ast.Tuple(elts=[self.expr(sc, 'any', depth + 1), self.expr(sc, 'any', depth + 1)], ctx=_L)
            elif fmt == '%(key)s':
                arg = ast.Dict(keys=[Const('key')], values=[self.expr(sc, 'any', depth + 1)])
            elif fmt == '%%':
                arg = ast.Tuple(elts=[], ctx=_L)
            elif fmt in ('%d items', '%x'):
                arg = self.expr(sc, 'int', depth + 1)
            elif fmt == '%5.2f':
                arg = self.expr(sc, 'float', depth + 1)
            else:
                arg = ast.Tuple(elts=[self.expr(sc, 'any', depth + 1)], ctx=_L)
            return ast.BinOp(left=Const(fmt), op=ast.Mod(), right=arg)
        if f == 'fstring':
            return self.fstring(sc, depth + 1)
        if f == 'method':
            m = self.pick(STR_METHODS)
            base = self.expr(sc, 'str', depth + 1)
            args = {'split': [], 'join': [self.expr(sc, 'list', depth + 1)], 'replace': [self.lit_str(), self.lit_str()],
                    'startswith': [self.lit_str()], 'endswith': [self.lit_str()], 'find': [self.lit_str()],
                    'format': [self.expr(sc, 'any', depth + 1)], 'encode': [], 'count': [self.lit_str()]}.get(m, [])
            return ast.Call(func=ast.Attribute(value=base, attr=m, ctx=_L), args=args, keywords=[])
        if f == 'strcall':
            return ast.Call(func=Name(self.pick(('str', 'repr', 'str', 'format'))),
                            args=[self.expr(sc, 'any', depth + 1)], keywords=[])
        if f == 'slice':
            return ast.Subscript(value=self.expr(sc, 'str', depth + 1), slice=self.slice(sc, depth + 1, slice_only=True), ctx=_L)
        return self.common(sc, 'str', depth)

    def fstring(self, sc, depth, nested=0):
        r = self.r
        parts = []
        for _ in range(1 + r.randrange(4)):
            if self.chance(.45):
                parts.append(Const(self.pick(['', ' ', 'x=', ': ', '{{', '}}', 'é', '\n', 'v', '%', "'", '"'])))
            else:
                mk = self.mark(sc)
                val = self.expr(sc, self.pick(('int', 'str', 'float', 'any', 'obj')), depth + 1)
                if isinstance(val, (ast.Yield, ast.YieldFrom, ast.Await, ast.NamedExpr, ast.Lambda)):
                    self.discard(mk)
                    val = self.atom(sc, 'any')
                conv = self.weighted([(-1, 5), (ord('r'), 1.5), (ord('s'), 1), (ord('a'), .7)])
                spec = None
                if self.chance(.4):
                    sp = [Const(self.pick(['>10', '<5', '^8', '>4', '', 's' if conv != -1 else '', '']))]
                    if nested < 2 and self.chance(.4):
                        sp.append(ast.FormattedValue(value=self.atom(sc, 'int'), conversion=-1, format_spec=None))
                    sp = [p for p in sp if not (isinstance(p, ast.Constant) and p.value == '')]
                    if sp:
                        spec = ast.JoinedStr(values=sp)
                parts.append(ast.FormattedValue(value=val, conversion=conv, format_spec=spec))
        if not any(isinstance(p, ast.FormattedValue) for p in parts):
            parts.append(ast.FormattedValue(value=self.atom(sc, 'any'), conversion=-1, format_spec=None))
        return ast.JoinedStr(values=parts)

    def e_bytes(self, sc, depth):
        f = self.weighted([('lit', 4), ('name', 2), ('concat', 1), ('common', .7), ('encode', 1)])
        if f == 'lit':
            return self.lit_bytes()
        if f == 'name':
            return self.atom(sc, 'bytes')
        if f == 'concat':
            return ast.BinOp(left=self.expr(sc, 'bytes', depth + 1), op=ast.Add(), right=self.expr(sc, 'bytes', depth + 1))
        if f == 'encode':
            return ast.Call(func=ast.Attribute(value=self.expr(sc, 'str', depth + 1), attr='encode', ctx=_L),
                            args=[Const('utf-8')] if self.chance(.5) else [], keywords=[])
        return self.common(sc, 'bytes', depth)

    def e_none(self, sc, depth):
        return Const(None) if self.chance(.7) else self.common(sc, 'none', depth)

    def elements(self, sc, depth, allow_star=True):
        r = self.r
        n = self.weighted([(0, 1), (1, 2), (2, 3), (3, 2), (5, 1), (9, .3)])
        k = self.pick(('int', 'str', 'any', 'float', 'obj'))
        out = []
        for _ in range(n):
            if allow_star and self.chance(.12):
                out.append(ast.Starred(value=self.expr(sc, self.pick(('list', 'tuple', 'obj')), depth + 1), ctx=_L))
            else:
                out.append(self.expr(sc, k, depth + 1))
        return out

    def e_list(self, sc, depth):
        f = self.weighted([('display', 4), ('comp', 2.5), ('name', 2), ('concat', 1), ('mul', .6), ('call', 1.5),
                           ('common', 1), ('slice', 1), ('method', .8)])
        if f == 'display':
            return ast.List(elts=self.elements(sc, depth), ctx=_L)
        if f == 'comp':
            return self.comprehension(sc, depth, 'list')
        if f == 'name':
            return self.atom(sc, 'list')
        if f == 'concat':
            return ast.BinOp(left=self.expr(sc, 'list', depth + 1), op=ast.Add(), right=self.expr(sc, 'list', depth + 1))
        if f == 'mul':
            return ast.BinOp(left=self.expr(sc, 'list', depth + 1), op=ast.Mult(), right=Const(self.r.randrange(0, 4)))
        if f == 'call':
            fn = self.pick(('list', 'sorted', 'list'))
            return ast.Call(func=Name(fn), args=[self.expr(sc, self.pick(('list', 'tuple', 'set', 'dict', 'str')), depth + 1)], keywords=[])
        if f == 'slice':
            return ast.Subscript(value=self.expr(sc, 'list', depth + 1), slice=self.slice(sc, depth + 1, slice_only=True), ctx=_L)
        if f == 'method':
            return ast.Call(func=ast.Attribute(value=self.expr(sc, 'str', depth + 1), attr='split', ctx=_L), args=[], keywords=[])
        return self.common(sc, 'list', depth)

    def e_tuple(self, sc, depth):
        f = self.weighted([('display', 5), ('name', 2), ('call', 1), ('common', 1), ('concat', .7)])
        if f == 'display':
            return ast.Tuple(elts=self.elements(sc, depth), ctx=_L)
        if f == 'name':
            return self.atom(sc, 'tuple')
        if f == 'call':
            return ast.Call(func=Name('tuple'), args=[self.expr(sc, 'list', depth + 1)], keywords=[])
        if f == 'concat':
            return ast.BinOp(left=self.expr(sc, 'tuple', depth + 1), op=ast.Add(), right=self.expr(sc, 'tuple', depth + 1))
        return self.common(sc, 'tuple', depth)

    def e_dict(self, sc, depth):
        r = self.r
        f = self.weighted([('display', 5), ('comp', 2), ('name', 2), ('call', 1.5), ('common', 1), ('merge', .5)])
        if f == 'display':
            keys, vals = [], []
            for _ in range(self.weighted([(0, 1), (1, 2), (2, 2), (4, 1)])):
                if self.chance(.12):
                    keys.append(None)
                    vals.append(self.expr(sc, 'dict', depth + 1))
                else:
                    keys.append(self.expr(sc, self.pick(('str', 'str', 'int', 'tuple')), depth + 1))
                    vals.append(self.expr(sc, 'any', depth + 1))
            return ast.Dict(keys=keys, values=vals)
        if f == 'comp':
            return self.comprehension(sc, depth, 'dict')
        if f == 'name':
            return self.atom(sc, 'dict')
        if f == 'call':
            kws = [ast.keyword(arg=self.pick(ATTRS[:7]) + str(i), value=self.expr(sc, 'any', depth + 1)) for i in range(r.randrange(3))]
            if self.chance(.3):
                kws.append(ast.keyword(arg=None, value=self.expr(sc, 'dict', depth + 1)))
            return ast.Call(func=Name('dict'), args=[], keywords=kws)
        if f == 'merge':
            return ast.BinOp(left=self.expr(sc, 'dict', depth + 1), op=ast.BitOr(), right=self.expr(sc, 'dict', depth + 1))
        return self.common(sc, 'dict', depth)

    def e_set(self, sc, depth):
        f = self.weighted([('display', 4), ('comp', 2), ('name', 2), ('call', 1.5), ('op', 1), ('common', .7)])
        if f == 'display':
            e = self.elements(sc, depth)
            return ast.Set(elts=e) if e else ast.Call(func=Name('set'), args=[], keywords=[])
        if f == 'comp':
            return self.comprehension(sc, depth, 'set')
        if f == 'name':
            return self.atom(sc, 'set')
        if f == 'call':
            return ast.Call(func=Name(self.pick(('set', 'frozenset'))), args=[self.expr(sc, 'list', depth + 1)], keywords=[])
        if f == 'op':
            return ast.BinOp(left=self.expr(sc, 'set', depth + 1), op=self.pick((ast.BitOr(), ast.BitAnd(), ast.Sub(), ast.BitXor())),
                             right=self.expr(sc, 'set', depth + 1))
        return self.common(sc, 'set', depth)

    def e_obj(self, sc, depth):
        f = self.weighted([('name', 4), ('call', 3), ('attr', 2), ('lambda', .8), ('common', 2), ('genexp', .8), ('lit', 1)])
        if f == 'name':
            return self.atom(sc, 'obj')
        if f == 'call':
            return self.call(sc, depth)
        if f == 'attr':
            n, _ = self.read_name(sc, ('any',))
            return ast.Attribute(value=n or Const(''), attr=self.pick(ATTRS), ctx=_L)
        if f == 'lambda':
            return self.lambda_(sc, depth + 1)
        if f == 'genexp':
            return self.comprehension(sc, depth, 'gen')
        if f == 'lit':
            return self.literal(self.pick(('ellipsis', 'complex', 'none', 'int', 'str')))
        return self.common(sc, 'obj', depth)

    def slice(self, sc, depth, slice_only=False):
        r = self.r

        def bound():
            return self.expr(sc, 'int', depth + 1) if self.chance(.6) else None
        f = self.weighted([('index', 0 if slice_only else 5), ('slice', 4), ('ext', 0 if slice_only else .7),
                           ('key', 0 if slice_only else 2)])
        if f == 'index':
            return self.expr(sc, 'int', depth + 1)
        if f == 'key':
            return self.expr(sc, self.pick(('str', 'any')), depth + 1)
        if f == 'slice':
            return ast.Slice(lower=bound(), upper=bound(), step=bound() if self.chance(.3) else None)
        return ast.Tuple(elts=[self.pick((ast.Slice(lower=bound(), upper=bound(), step=None), Const(Ellipsis),
                                          self.expr(sc, 'int', depth + 1))) for _ in range(2 + r.randrange(2))], ctx=_L)

    # ------------------------------------------------------------------ calls
    def call_args(self, sc, depth, npos=None, kwnames=(), star=True):
        r = self.r
        args = []
        n = npos if npos is not None else self.weighted([(0, 2), (1, 4), (2, 3), (3, 1), (6, .3)])
        for _ in range(n):
            args.append(self.expr(sc, 'any', depth + 1))
        kws = []
        for k in kwnames:
            kws.append(ast.keyword(arg=k, value=self.expr(sc, 'any', depth + 1)))
        if star and self.chance(.15):
            args.append(ast.Starred(value=self.expr(sc, self.pick(('list', 'tuple', 'obj')), depth + 1), ctx=_L))
            if self.chance(.3):
                args.append(self.expr(sc, 'any', depth + 1))
        if star and self.chance(.15):
            # ** operand: a name, a dict display (possibly with non-constant keys), a call, a comprehension
            kws.append(ast.keyword(arg=None, value=self.expr(sc, 'dict', depth + 1)))
            if self.chance(.3):
                kws.append(ast.keyword(arg='kw_after', value=self.expr(sc, 'any', depth + 1)))
            if self.chance(.3):
                kws.append(ast.keyword(arg=None, value=self.atom(sc, 'dict') if self.chance(.5) else self.atom(sc, 'obj')))
        return args, kws

    def call(self, sc, depth):
        r = self.r
        f = self.weighted([('global_func', 4 if self.funcs else 0), ('builtin', 3), ('method', 3), ('any', 2),
                           ('class', 1.5 if self.classes else 0), ('exc', .5)])
        if f == 'global_func':
            name = self.pick(sorted(self.funcs))
            lo, hi, kwn, var, kw = self.funcs[name]
            npos = r.randrange(lo, hi + 1) if hi >= lo else lo
            if var and self.chance(.4):
                npos += r.randrange(3)
            kws = [k for k in kwn if self.chance(.4)]
            args, kwl = self.call_args(sc, depth, npos=npos, kwnames=kws, star=var or kw)
            return ast.Call(func=Name(name), args=args, keywords=kwl)
        if f == 'builtin':
            fn = self.pick(BUILTIN_FUNCS)
            table = {'len': ['list'], 'abs': ['int'], 'min': ['int', 'int'], 'max': ['list'], 'sum': ['list'],
                     'sorted': ['list'], 'isinstance': ['obj', 'type'], 'getattr': ['obj', 'str', 'any'],
                     'hasattr': ['obj', 'str'], 'range': ['int'], 'enumerate': ['list'], 'zip': ['list', 'list'],
                     'divmod': ['int', 'int'], 'pow': ['int', 'int'], 'round': ['float'], 'ord': ['str'], 'chr': ['int'],
                     'map': ['func', 'list'], 'filter': ['func', 'list'], 'print': ['any', 'any'], 'super': [],
                     'vars': [], 'object': [], 'next': ['obj'], 'iter': ['list'], 'format': ['any', 'str']}
            kinds = table.get(fn, ['any'])
            if fn == 'super' and not (sc.kind == 'function' and getattr(sc, 'in_method', False)):
                fn, kinds = 'repr', ['any']
            args = []
            for k in kinds:
                if k == 'type':
                    args.append(Name(self.pick(('int', 'str', 'list', 'dict', 'object'))))
                elif k == 'func':
                    args.append(self.lambda_(sc, depth + 1, nargs=1) if self.chance(.6) else Name(self.pick(('str', 'repr', 'abs'))))
                else:
                    args.append(self.expr(sc, k, depth + 1))
            kws = []
            if fn == 'print' and self.chance(.4):
                kws = [ast.keyword(arg=self.pick(('sep', 'end')), value=self.lit_str())]
            if fn == 'sorted' and self.chance(.4):
                kws = [ast.keyword(arg='key', value=self.lambda_(sc, depth + 1, nargs=1)), ast.keyword(arg='reverse', value=Const(True))][:1 + r.randrange(2)]
            return ast.Call(func=Name(fn), args=args, keywords=kws)
        if f == 'method':
            k = self.pick(('list', 'dict', 'str', 'set'))
            m = self.pick({'list': LIST_METHODS, 'dict': DICT_METHODS, 'str': STR_METHODS, 'set': SET_METHODS}[k])
            argk = {'append': ['any'], 'extend': ['list'], 'insert': ['int', 'any'], 'index': ['any'], 'count': ['any'],
                    'get': ['str', 'any'], 'pop': [], 'setdefault': ['str', 'any'], 'update': ['dict'], 'add': ['any'],
                    'discard': ['any'], 'union': ['set'], 'intersection': ['set'], 'join': ['list'],
                    'replace': ['str', 'str'], 'startswith': ['str'], 'endswith': ['str'], 'find': ['str'],
                    'format': ['any'], 'split': []}.get(m, [])
            base, _ = self.read_name(sc, (k,))
            if base is None:
                base = self.expr(sc, k, depth + 1)
            return ast.Call(func=ast.Attribute(value=base, attr=m, ctx=_L), args=[self.expr(sc, a, depth + 1) for a in argk], keywords=[])
        if f == 'class':
            args, kws = self.call_args(sc, depth, npos=r.randrange(2), star=False)
            return ast.Call(func=Name(self.pick(self.classes)), args=args, keywords=kws)
        if f == 'exc':
            return ast.Call(func=Name(self.pick(EXC_NAMES)), args=[self.expr(sc, 'str', depth + 1)], keywords=[])
        mk = self.mark(sc)
        fn = self.expr(sc, 'obj', depth + 1)
        if isinstance(fn, (ast.Constant, ast.Lambda, ast.GeneratorExp, ast.Yield, ast.YieldFrom, ast.Await)):
            if not isinstance(fn, ast.Constant):
                self.discard(mk)
                fn = Const('')
            fn = ast.Attribute(value=fn, attr=self.pick(ATTRS), ctx=_L)
        args, kws = self.call_args(sc, depth, kwnames=[self.pick(ATTRS[:6])] if self.chance(.3) else ())
        return ast.Call(func=fn, args=args, keywords=kws)

    def arguments(self, sc_new, sc_outer, depth, prefix, simple=False, nargs=None):
        """ast.arguments with names bound into sc_new; defaults evaluated in sc_outer"""
        r = self.r
        cnt = [0]

        def nm():
            cnt[0] += 1
            return '%s_%d' % (prefix, cnt[0])

        def arg(annot=True):
            n = nm()
            a = None
            if annot and not simple and self.chance(.2):
                a = self.annotation(sc_outer)
            sc_new.assigned[n] = 'any'
            return ast.arg(arg=n, annotation=a)
        npos = nargs if nargs is not None else self.weighted([(0, 2), (1, 4), (2, 3), (3, 1.5), (5, .5)])
        nposonly = r.randrange(npos + 1) if (not simple and self.chance(.2)) else 0
        posonly = [arg() for _ in range(nposonly)]
        args = [arg() for _ in range(npos - nposonly)]
        ndef = r.randrange(npos + 1) if self.chance(.5) and nargs is None else 0
        defaults = [self.default(sc_outer, depth) for _ in range(ndef)]
        vararg = arg() if (nargs is None and self.chance(.2)) else None
        kwonly = [arg() for _ in range(r.randrange(3))] if (nargs is None and self.chance(.25)) else []
        kw_defaults = [self.default(sc_outer, depth) if self.chance(.6) else None for _ in kwonly]
        kwarg = arg() if (nargs is None and self.chance(.2)) else None
        if sc_new.kind == 'lambda':
            for a in posonly + args + kwonly + [x for x in (vararg, kwarg) if x]:
                a.annotation = None
        return ast.arguments(posonlyargs=posonly, args=args, vararg=vararg, kwonlyargs=kwonly, kw_defaults=kw_defaults,
                             kwarg=kwarg, defaults=defaults), (nposonly, npos, ndef, [a.arg for a in kwonly], bool(vararg), bool(kwarg),
                                                               [a.arg for a in args])

    def default(self, sc, depth):
        k = self.weighted([('int', 3), ('str', 2), ('none', 3), ('tuple', 1), ('bool', 1), ('float', 1), ('list', .5), ('any', 1)])
        return self.expr(sc, k, max(depth, 2))

    def annotation(self, sc):
        f = self.weighted([('object', 2), ('global', 2), ('str', 1), ('sub', 1.5), ('attr', 1), ('none', .5), ('union', .7)])
        if f == 'object':
            return Name('object')
        if f == 'global':
            return Name(self.pick(sorted(self.globals)))
        if f == 'str':
            return Const(self.pick(['object', 'Any', 'SomeForwardRef', 'typing.List[int]']))
        if f == 'sub':
            return ast.Subscript(value=Name(self.pick(sorted(self.globals))), slice=self.pick((Name('object'), Const(1), Const('x'))), ctx=_L)
        if f == 'attr':
            return ast.Attribute(value=Name(self.pick(sorted(self.globals))), attr=self.pick(ATTRS[:6]), ctx=_L)
        if f == 'union':
            return ast.BinOp(left=Name('object'), op=ast.BitOr(), right=Const(None))
        return Const(None)

    def lambda_(self, sc, depth, nargs=None):
        self.nlam += 1
        ls = Scope('lambda', sc, self.nlam)
        ls.is_async = False
        args, _ = self.arguments(ls, sc, depth, 'l%d' % self.nlam, simple=True, nargs=nargs)
        ls.no_walrus = True
        body = self.expr(ls, 'any', depth + 1)
        return ast.Lambda(args=args, body=body)

    def comprehension(self, sc, depth, form):
        r = self.r
        self.ncomp += 1
        cs = Scope('comp', sc, self.ncomp)
        cs.is_async = sc.func_scope().is_async and sc.kind != 'lambda'
        gens = []
        ngen = 1 + (r.randrange(5) == 0)
        for gi in range(ngen):
            # the first iterable is evaluated in the enclosing scope
            it_scope = sc if gi == 0 else cs
            saved_nw = getattr(it_scope, 'no_walrus', False)
            it_scope.no_walrus = True
            iterable = self.expr(it_scope, self.pick(('list', 'list', 'tuple', 'dict', 'obj', 'str')), depth + 1)
            if self.chance(.25):
                iterable = ast.Call(func=Name('range'), args=[self.expr(it_scope, 'int', depth + 2)], keywords=[])
            it_scope.no_walrus = saved_nw
            if self.chance(.2):
                n1, n2 = 'c%d_%da' % (self.ncomp, gi), 'c%d_%db' % (self.ncomp, gi)
                tgt = ast.Tuple(elts=[Name(n1, _S), Name(n2, _S)], ctx=_S)
                iterable = ast.Call(func=Name('enumerate'), args=[iterable], keywords=[])
                cs.assigned[n1] = 'int'
                cs.assigned[n2] = 'any'
            else:
                n1 = 'c%d_%d' % (self.ncomp, gi)
                tgt = Name(n1, _S)
                cs.assigned[n1] = 'any'
            ifs = [self.expr(cs, 'bool', depth + 2) for _ in range(self.weighted([(0, 3), (1, 2), (2, .4)]))]
            is_async = 1 if (cs.is_async and self.chance(.15) and sc.kind == 'function') else 0
            gens.append(ast.comprehension(target=tgt, iter=iterable, ifs=ifs, is_async=is_async))
        if form == 'dict':
            return ast.DictComp(key=self.expr(cs, self.pick(('str', 'int', 'any')), depth + 1), value=self.expr(cs, 'any', depth + 1), generators=gens)
        elt = self.expr(cs, 'any', depth + 1)
        if form == 'list':
            return ast.ListComp(elt=elt, generators=gens)
        if form == 'set':
            return ast.SetComp(elt=elt, generators=gens)
        return ast.GeneratorExp(elt=elt, generators=gens)

    # ------------------------------------------------------------------ assignment targets
    def target(self, sc, depth=0, allow_star=True, kind='any'):
        """-> (target node, [(name, kind)] bound by it)"""
        r = self.r
        f = self.weighted([('name', 6), ('tuple', 1.5 if depth < 2 else 0), ('attr', 1.2), ('sub', 1.2), ('list', .4 if depth < 2 else 0)])
        if f == 'name':
            if sc.kind != 'class' and self.chance(.4):
                c = [n for n in sc.assigned if n in self.rebindable(sc)]
                if c:
                    n = self.pick(sorted(c))
                    return Name(n, _S), [(n, kind if sc.assigned.get(n) == kind else 'any')]
            if sc.kind == 'function' and sc.globals_declared and self.chance(.3):
                n = self.pick(sorted(sc.globals_declared))
                return Name(n, _S), []
            n = self.new_local(sc)
            return Name(n, _S), [(n, kind)]
        if f in ('tuple', 'list'):
            n = 1 + r.randrange(3)
            elts, bound = [], []
            star_at = r.randrange(n) if (allow_star and self.chance(.25)) else -1
            for i in range(n):
                t, b = self.target(sc, depth + 1, allow_star=False)
                if i == star_at:
                    t = ast.Starred(value=t, ctx=_S)
                    b = [(x, 'list') for x, _ in b]
                else:
                    b = [(x, 'any') for x, _ in b]
                elts.append(t)
                bound += b
            return (ast.Tuple if f == 'tuple' else ast.List)(elts=elts, ctx=_S), bound
        if f == 'attr':
            base, _ = self.read_name(sc, ('any',))
            if base is None:
                n = self.new_local(sc)
                return Name(n, _S), [(n, kind)]
            return ast.Attribute(value=base, attr=self.pick(ATTRS), ctx=_S), []
        base, _ = self.read_name(sc, ('list', 'dict', 'any'))
        if base is None:
            n = self.new_local(sc)
            return Name(n, _S), [(n, kind)]
        return ast.Subscript(value=base, slice=self.slice(sc, depth + 2), ctx=_S), []

    def rebindable(self, sc):
        """names bound by this very scope that may be re-assigned: its own locals and parameters"""
        if sc.kind == 'function':
            pre = ('v%d_' % sc.idx, 'p%d_' % sc.idx)
        elif sc.kind == 'module':
            pre = ('mv',)
        elif sc.kind == 'class':
            pre = ('a%d_' % sc.idx,)
        else:
            pre = ()
        return {n for n in sc.assigned if pre and n.startswith(pre)}

    # ------------------------------------------------------------------ statements
    def block(self, sc, depth, n=None, allow_defs=True):
        r = self.r
        if n is None:
            n = self.weighted([(1, 3), (2, 3), (3, 2), (5, 1)])
        out = []
        for _ in range(n):
            if self.budget <= 0 and out:
                break
            st = self.statement(sc, depth, allow_defs)
            if st is None:
                continue
            out.extend(st if isinstance(st, list) else [st])
            if isinstance(out[-1], (ast.Return, ast.Raise, ast.Break, ast.Continue)):
                if not self.chance(.1):
                    break
        if not out:
            out = [ast.Pass() if self.chance(.6) else ast.Expr(value=Const(Ellipsis))]
        return out

    def statement(self, sc, depth, allow_defs=True):
        r = self.r
        self.spend(2)
        deep = depth >= 4 or self.budget <= 0
        fs = sc.func_scope()
        in_func = sc.kind == 'function'
        w = [('assign', 7), ('augassign', 2), ('annassign', 1), ('expr', 3), ('pass', .4), ('delete', .7),
             ('assert', .7), ('import', .5 if sc.kind != 'class' else .1),
             ('if', 0 if deep else 3), ('for', 0 if deep else 2.2), ('while', 0 if deep else 1), ('try', 0 if deep else 1.5),
             ('with', 0 if deep else 1.2), ('match', 0 if deep or not self.py312 else .8),
             ('funcdef', 0 if deep or not allow_defs else 1.2), ('classdef', 0 if deep or not allow_defs else .5),
             ('return', 1.2 if in_func else 0), ('raise', .6), ('break', .8 if sc.loop_depth and not sc.in_finally else 0),
             ('continue', .6 if sc.loop_depth and not sc.in_finally else 0),
             ('asyncfor', 0 if deep or not (in_func and sc.is_async) else 1), ('asyncwith', 0 if deep or not (in_func and sc.is_async) else 1),
             ('trystar', 0 if deep or not self.py312 else .3)]
        kind = self.weighted(w)
        st = getattr(self, 's_' + kind)(sc, depth)
        if sc.kind in ('function', 'module') and sc.pending:
            for n in sc.pending:
                sc.assigned.setdefault(n, 'any')
            del sc.pending[:]
        return st

    def s_pass(self, sc, depth):
        return ast.Pass()

    def s_expr(self, sc, depth):
        k = self.weighted([('call', 6), ('any', 1), ('str', .5), ('yield', 1 if self.can_yield(sc) else 0),
                           ('await', 1 if sc.kind == 'function' and sc.is_async else 0)])
        if k == 'call':
            return ast.Expr(value=self.call(sc, 1))
        if k == 'yield':
            sc.is_generator = True
            return ast.Expr(value=ast.Yield(value=self.expr(sc, 'any', 2)))
        if k == 'await':
            return ast.Expr(value=ast.Await(value=self.call(sc, 2)))
        return ast.Expr(value=self.expr(sc, k, 1))

    def s_assign(self, sc, depth):
        r = self.r
        kind = self.weighted([('int', 4), ('str', 3), ('list', 2), ('dict', 1.5), ('float', 1), ('tuple', 1), ('set', .5),
                              ('bool', 1), ('none', .5), ('bytes', .5), ('obj', 2)])
        vk = kind if kind != 'obj' else 'any'
        ntargets = 1 + (r.randrange(8) == 0)
        targets, bound = [], []
        for i in range(ntargets):
            # a chain "a = b = value" shares one value: only single targets there
            t, b = self.target(sc, 0 if ntargets == 1 else 2, kind=vk)
            targets.append(t)
            bound += b
        t = targets[0]
        if isinstance(t, (ast.Tuple, ast.List)):
            # unpacking: a display of matching length (any length >= n-1 with a star), or an opaque iterable
            n = len(t.elts)
            has_star = any(isinstance(e, ast.Starred) for e in t.elts)
            if self.profile == 'hostile' and self.chance(.3):
                self.features.add('unpack-size-mismatch')
                cnt = max(0, n - 2) if has_star else max(0, n + self.pick((-1, 1)))
                value = ast.Tuple(elts=[self.expr(sc, 'any', 2) for _ in range(cnt)], ctx=_L)
            elif self.chance(.7):
                cnt = n if not has_star else n - 1 + r.randrange(4)
                elts = []
                for i in range(cnt):
                    te = t.elts[i] if (not has_star and i < n) else None
                    if te is not None and isinstance(te, (ast.Tuple, ast.List)):
                        elts.append(self.atom(sc, 'obj'))      # nested unpacking of an opaque value
                    elif has_star:
                        elts.append(self.atom(sc, 'obj') if any(isinstance(e, (ast.Tuple, ast.List)) for e in t.elts)
                                    else self.expr(sc, 'any', 2))
                    else:
                        elts.append(self.expr(sc, 'any', 2))
                if has_star and self.chance(.3):
                    # starred display on the right of a starred unpacking
                    elts.insert(r.randrange(len(elts) + 1), ast.Starred(value=self.expr(sc, 'list', 2), ctx=_L))
                value = (ast.Tuple if self.chance(.6) else ast.List)(elts=elts, ctx=_L)
            else:
                value = self.atom(sc, 'obj') if self.chance(.5) else self.call(sc, 1)
        else:
            value = self.expr(sc, kind, 0)
        for n, k in bound:
            self.bind(sc, n, k)
        return ast.Assign(targets=targets, value=value, lineno=0)

    def s_augassign(self, sc, depth):
        c = [(n, k) for n, k in sc.assigned.items() if n in self.rebindable(sc) and k in ('int', 'float', 'str', 'list', 'any')]
        if not c:
            return self.s_assign(sc, depth)
        n, k = self.pick(sorted(c))
        if k == 'int':
            op = self.pick((ast.Add(), ast.Sub(), ast.Mult(), ast.FloorDiv(), ast.Mod(), ast.BitAnd(), ast.BitOr(), ast.BitXor()))
            val = self.expr(sc, 'int', 1)
        elif k == 'float':
            op = self.pick((ast.Add(), ast.Sub(), ast.Mult(), ast.Div()))
            val = self.expr(sc, 'float', 1)
        elif k in ('str', 'list'):
            op = ast.Add()
            val = self.expr(sc, k, 1)
        else:
            op = self.pick((ast.Add(), ast.Sub(), ast.Mult(), ast.MatMult(), ast.Div(), ast.Pow(), ast.LShift(), ast.RShift()))
            val = self.expr(sc, 'any', 1) if not isinstance(op, (ast.Pow, ast.LShift, ast.RShift)) else Const(self.r.randrange(5))
        tgt = Name(n, _S)
        if self.chance(.2):
            base, _ = self.read_name(sc, ('any',))
            if base is not None:
                tgt = self.pick((ast.Attribute(value=base, attr=self.pick(ATTRS), ctx=_S),
                                 ast.Subscript(value=base, slice=self.expr(sc, 'int', 2), ctx=_S)))
        return ast.AugAssign(target=tgt, op=op, value=val)

    def s_annassign(self, sc, depth):
        value = self.expr(sc, 'any', 1) if self.chance(.7) else None
        if self.chance(.2):
            base, _ = self.read_name(sc, ('any',))
            if base is not None:
                return ast.AnnAssign(target=ast.Attribute(value=base, attr=self.pick(ATTRS), ctx=_S),
                                     annotation=self.annotation(sc), value=value, simple=0)
        n = self.new_local(sc)
        node = ast.AnnAssign(target=Name(n, _S), annotation=self.annotation(sc), value=value, simple=1)
        if value is not None:
            self.bind(sc, n, 'any')
        return node

    def s_delete(self, sc, depth):
        f = self.weighted([('temp', 3 if sc.kind in ('function', 'module') else 0), ('attr', 1.5), ('sub', 2)])
        if f == 'temp':
            self.ntmp += 1
            n = 'tmp%d' % self.ntmp if sc.kind == 'function' else 'mtmp%d' % self.ntmp
            a = ast.Assign(targets=[Name(n, _S)], value=self.expr(sc, 'any', 2), lineno=0)
            tg = Name(n, _D)
            if self.chance(.2):
                self.ntmp += 1
                n2 = n + 'b'
                a2 = ast.Assign(targets=[Name(n2, _S)], value=self.expr(sc, 'any', 2), lineno=0)
                return [a, a2, ast.Delete(targets=[ast.Tuple(elts=[tg, Name(n2, _D)], ctx=_D)] if self.chance(.5) else [tg, Name(n2, _D)])]
            return [a, ast.Delete(targets=[tg])]
        base, _ = self.read_name(sc, ('any', 'list', 'dict'))
        if base is None:
            return ast.Pass()
        if f == 'attr':
            return ast.Delete(targets=[ast.Attribute(value=base, attr=self.pick(ATTRS), ctx=_D)])
        return ast.Delete(targets=[ast.Subscript(value=base, slice=self.slice(sc, 2), ctx=_D)])

    def s_assert(self, sc, depth):
        return ast.Assert(test=self.expr(sc, 'bool', 1), msg=self.expr(sc, 'str', 2) if self.chance(.4) else None)

    def s_import(self, sc, depth):
        r = self.r
        m = self.pick(MODULES)
        if self.chance(.5):
            # always aliased: keeps the name pools disjoint
            alias = self.new_local(sc)
            self.bind(sc, alias, 'any')
            return ast.Import(names=[ast.alias(name=m, asname=alias)])
        names = {'os': ['path', 'sep', 'getcwd'], 'sys': ['argv', 'path', 'maxsize'], 'math': ['pi', 'sqrt', 'floor'],
                 'collections': ['OrderedDict', 'deque', 'namedtuple'], 'itertools': ['chain', 'count'],
                 'functools': ['partial', 'reduce'], 'os.path': ['join', 'exists'], 'json': ['dumps', 'loads']}[m]
        als = []
        for nm in r.sample(names, 1 + r.randrange(2)):
            a = self.new_local(sc)
            self.bind(sc, a, 'any')
            als.append(ast.alias(name=nm, asname=a))
        return ast.ImportFrom(module=m, names=als, level=0)

    def branch(self, sc, fn):
        """run fn() on a copy of the definitely-assigned set; return (result, assigned-after)"""
        saved = dict(sc.assigned)
        res = fn()
        after = sc.assigned
        sc.assigned = saved
        return res, after

    def s_if(self, sc, depth):
        test = self.expr(sc, 'bool', 0)
        body, a1 = self.branch(sc, lambda: self.block(sc, depth + 1))
        orelse, a2 = [], dict(sc.assigned)
        if self.chance(.5):
            if self.chance(.35):
                orelse, a2 = self.branch(sc, lambda: [self.s_if(sc, depth + 1)])
            else:
                orelse, a2 = self.branch(sc, lambda: self.block(sc, depth + 1))
        t1 = isinstance(body[-1], (ast.Return, ast.Raise, ast.Break, ast.Continue))
        t2 = bool(orelse) and isinstance(orelse[-1], (ast.Return, ast.Raise, ast.Break, ast.Continue))
        if t1 and not t2:
            merged = a2
        elif t2 and not t1:
            merged = a1
        else:
            merged = {n: (k if a2.get(n) == k else 'any') for n, k in a1.items() if n in a2}
        # only keep what this scope may already have had or both branches assigned
        sc.assigned = {**sc.assigned, **merged} if not (t1 and t2) else sc.assigned
        return ast.If(test=test, body=body, orelse=orelse)

    def loop_body(self, sc, depth):
        sc.loop_depth += 1
        saved_fin = sc.in_finally
        sc.in_finally = 0
        try:
            return self.block(sc, depth + 1)
        finally:
            sc.loop_depth -= 1
            sc.in_finally = saved_fin

    def s_for(self, sc, depth, is_async=False):
        it = self.expr(sc, self.pick(('list', 'list', 'tuple', 'dict', 'obj', 'str', 'set')), 0)
        if self.chance(.3):
            it = ast.Call(func=Name('range'), args=[self.expr(sc, 'int', 1)] + ([self.expr(sc, 'int', 1)] if self.chance(.3) else []), keywords=[])
        elif self.chance(.15):
            it = ast.Call(func=ast.Attribute(value=self.expr(sc, 'dict', 1), attr='items', ctx=_L), args=[], keywords=[])
        saved = dict(sc.assigned)
        tgt, bound = self.target(sc, 0 if self.chance(.3) else 2)
        for n, k in bound:
            self.bind(sc, n, 'any')
        body = self.loop_body(sc, depth)
        sc.assigned = dict(saved)
        orelse = []
        if self.chance(.2):
            orelse, _ = self.branch(sc, lambda: self.block(sc, depth + 1))
        cls = ast.AsyncFor if is_async else ast.For
        return cls(target=tgt, iter=it, body=body, orelse=orelse, lineno=0)

    def s_asyncfor(self, sc, depth):
        return self.s_for(sc, depth, is_async=True)

    def s_while(self, sc, depth):
        test = self.expr(sc, 'bool', 0) if self.chance(.8) else Const(True)
        saved = dict(sc.assigned)
        body = self.loop_body(sc, depth)
        sc.assigned = dict(saved)
        orelse = []
        if self.chance(.2):
            orelse, _ = self.branch(sc, lambda: self.block(sc, depth + 1))
        return ast.While(test=test, body=body, orelse=orelse)

    def s_break(self, sc, depth):
        return ast.Break()

    def s_continue(self, sc, depth):
        return ast.Continue()

    def s_try(self, sc, depth, star=False):
        r = self.r
        saved = dict(sc.assigned)
        body = self.block(sc, depth + 1)
        sc.assigned = dict(saved)
        handlers = []
        nh = self.weighted([(0, 1 if not star else 0), (1, 4), (2, 1.5), (3, .5)])
        for i in range(nh):
            bare = (not star) and i == nh - 1 and self.chance(.25)
            typ = None
            name = None
            if not bare:
                typ = Name(self.pick(EXC_NAMES))
                if self.chance(.3):
                    typ = ast.Tuple(elts=[typ, Name(self.pick(EXC_NAMES))], ctx=_L)
                if self.chance(.5):
                    self.nexc += 1
                    name = 'e%d' % self.nexc
            sc.assigned = dict(saved)
            if name:
                sc.assigned[name] = 'any'
            sc.in_except += 1
            if star:
                ld, sc.loop_depth = sc.loop_depth, 0     # break/continue/return are not allowed in except* blocks
                sc.no_return = getattr(sc, 'no_return', 0) + 1
            hb = self.block(sc, depth + 1)
            if star:
                sc.loop_depth = ld
                sc.no_return -= 1
            sc.in_except -= 1
            handlers.append(ast.ExceptHandler(type=typ, name=name, body=hb))
        sc.assigned = dict(saved)
        orelse = []
        if handlers and self.chance(.25):
            orelse, _ = self.branch(sc, lambda: self.block(sc, depth + 1))
        finalbody = []
        if not handlers or self.chance(.3):
            sc.in_finally += 1
            finalbody = self.block(sc, depth + 1)
            sc.in_finally -= 1
            # what finally assigns is definitely assigned afterwards
        cls = ast.TryStar if star else ast.Try
        return cls(body=body, handlers=handlers, orelse=orelse, finalbody=finalbody)

    def s_trystar(self, sc, depth):
        return self.s_try(sc, depth, star=True)

    def s_with(self, sc, depth, is_async=False):
        items = []
        saved = dict(sc.assigned)
        for _ in range(1 + (self.r.randrange(4) == 0)):
            ce = self.call(sc, 1) if self.chance(.8) else self.expr(sc, 'obj', 1)
            ov = None
            if self.chance(.6):
                self.nwith += 1
                n = 'w%d' % self.nwith
                ov = Name(n, _S)
                if self.chance(.15):
                    n2 = n + 'b'
                    ov = ast.Tuple(elts=[ov, Name(n2, _S)], ctx=_S)
                    sc.assigned[n2] = 'any'
                    saved[n2] = 'any'
                sc.assigned[n] = 'any'
                saved[n] = 'any'
            items.append(ast.withitem(context_expr=ce, optional_vars=ov))
        body = self.block(sc, depth + 1)
        sc.assigned = saved      # the body may be cut short by a suppressed exception
        cls = ast.AsyncWith if is_async else ast.With
        return cls(items=items, body=body, lineno=0)

    def s_asyncwith(self, sc, depth):
        return self.s_with(sc, depth, is_async=True)

    def s_return(self, sc, depth):
        if getattr(sc, 'no_return', 0):
            return ast.Pass()
        if getattr(sc, 'async_gen', False):
            return ast.Return(value=None)
        return ast.Return(value=self.expr(sc, 'any', 0) if self.chance(.8) else None)

    def s_raise(self, sc, depth):
        if sc.in_except and self.chance(.4):
            return ast.Raise(exc=None, cause=None)
        exc = ast.Call(func=Name(self.pick(EXC_NAMES)), args=[self.expr(sc, 'str', 2)] if self.chance(.7) else [], keywords=[])
        if self.chance(.2):
            exc = Name(self.pick(EXC_NAMES))
        cause = None
        if self.chance(.25):
            cause = self.pick((Const(None), self.atom(sc, 'obj')))
        return ast.Raise(exc=exc, cause=cause)

    # ---- match
    def pattern(self, sc, depth, captures, top=False):
        r = self.r
        f = self.weighted([('value', 3), ('singleton', 1), ('capture', 2), ('wildcard', 1.5), ('seq', 2 if depth < 2 else 0),
                           ('map', 1.2 if depth < 2 else 0), ('class', 1.2 if depth < 2 else 0), ('or', 1 if depth < 2 else 0),
                           ('as', .8 if depth < 2 else 0), ('dotted', .7)])
        if f == 'value':
            v = self.literal(self.pick(('int', 'str', 'bytes', 'float')))
            if isinstance(v.value, float) and (v.value != v.value or v.value in (float('inf'), -float('inf'))):
                v = Const(1.5)
            if isinstance(v.value, float):
                v = Const(abs(v.value))
            if self.chance(.15) and isinstance(v.value, (int, float)) and not isinstance(v.value, bool):
                v = ast.UnaryOp(op=ast.USub(), operand=v)
            return ast.MatchValue(value=v)
        if f == 'dotted':
            g = self.pick(sorted(self.globals))
            return ast.MatchValue(value=ast.Attribute(value=Name(g), attr=self.pick(ATTRS[:6]), ctx=_L))
        if f == 'singleton':
            return ast.MatchSingleton(value=self.pick((None, True, False)))
        if f == 'capture':
            self.nmatch += 1
            n = 'm%d' % self.nmatch
            captures.append(n)
            return ast.MatchAs(pattern=None, name=n)
        if f == 'wildcard':
            return ast.MatchAs(pattern=None, name=None)
        if f == 'seq':
            n = r.randrange(4)
            pats = [self.pattern(sc, depth + 1, captures) for _ in range(n)]
            if self.chance(.35):
                nm = None
                if self.chance(.6):
                    self.nmatch += 1
                    nm = 'm%d' % self.nmatch
                    captures.append(nm)
                pats.insert(r.randrange(len(pats) + 1), ast.MatchStar(name=nm))
            return ast.MatchSequence(patterns=pats)
        if f == 'map':
            n = r.randrange(3)
            keys = []
            for i in range(n):
                keys.append(Const(self.pick(['k%d' % i, i, 'name%d' % i])))
            pats = [self.pattern(sc, depth + 1, captures) for _ in range(n)]
            rest = None
            if self.chance(.3):
                self.nmatch += 1
                rest = 'm%d' % self.nmatch
                captures.append(rest)
            return ast.MatchMapping(keys=keys, patterns=pats, rest=rest)
        if f == 'class':
            cls = Name(self.pick(('int', 'str', 'list', 'dict', 'object') + tuple(self.classes)))
            builtin1 = cls.id in ('int', 'str', 'list', 'dict')
            npos = r.randrange(2) if builtin1 else 0
            pats = [self.pattern(sc, depth + 1, captures) for _ in range(npos)]
            nkw = r.randrange(3)
            kwd = r.sample(ATTRS[:8], nkw)
            kwp = [self.pattern(sc, depth + 1, captures) for _ in range(nkw)]
            return ast.MatchClass(cls=cls, patterns=pats, kwd_attrs=kwd, kwd_patterns=kwp)
        if f == 'or':
            # alternatives must bind the same names: use capture-free alternatives
            alts = []
            for _ in range(2 + r.randrange(2)):
                alts.append(self.pick((ast.MatchValue(value=self.literal(self.pick(('int', 'str')))),
                                       ast.MatchSingleton(value=None),
                                       ast.MatchSequence(patterns=[ast.MatchValue(value=self.lit_int())]),
                                       ast.MatchClass(cls=Name('int'), patterns=[], kwd_attrs=[], kwd_patterns=[]))))
            return ast.MatchOr(patterns=alts)
        inner = self.pattern(sc, depth + 1, captures)
        if isinstance(inner, ast.MatchAs) and inner.pattern is None:
            inner = ast.MatchValue(value=self.lit_int())
        self.nmatch += 1
        n = 'm%d' % self.nmatch
        captures.append(n)
        return ast.MatchAs(pattern=inner, name=n)

    def s_match(self, sc, depth):
        if sc.kind == 'class':
            return self.s_assign(sc, depth)
        subject = self.expr(sc, self.pick(('obj', 'tuple', 'list', 'int', 'str', 'dict')), 1)
        cases = []
        saved = dict(sc.assigned)
        ncase = 1 + self.r.randrange(4)
        for i in range(ncase):
            caps = []
            pat = self.pattern(sc, 0, caps, top=True)
            last = i == ncase - 1
            if not last and isinstance(pat, ast.MatchAs) and pat.pattern is None:
                # an irrefutable pattern is only allowed in the last case
                pat = ast.MatchValue(value=self.lit_int())
                caps = []
            sc.assigned = dict(saved)
            for c in caps:
                sc.assigned[c] = 'any'
            guard = self.expr(sc, 'bool', 2) if self.chance(.3) else None
            body = self.block(sc, depth + 1)
            cases.append(ast.match_case(pattern=pat, guard=guard, body=body))
        sc.assigned = saved
        return ast.Match(subject=subject, cases=cases)

    # ---- definitions
    def decorators(self, sc):
        out = []
        for _ in range(self.weighted([(0, 6), (1, 2), (2, .6)])):
            if self.chance(.6):
                out.append(Name('deco0'))
            else:
                out.append(ast.Call(func=Name('decofactory0'), args=[self.expr(sc, 'any', 3)],
                                    keywords=[ast.keyword(arg='opt', value=self.expr(sc, 'any', 3))] if self.chance(.4) else []))
        return out

    def s_funcdef(self, sc, depth, method_of=None, name=None):
        r = self.r
        self.nfunc += 1
        k = self.nfunc
        if name is None:
            name = self.new_local(sc, 'fn') if sc.kind != 'module' else 'f%d' % k
        fs = Scope('function', sc, k)
        fs.is_async = self.chance(.15)
        if fs.is_async:
            # an async function either yields (then 'return' carries no value) or never yields
            if self.chance(.35):
                fs.async_gen = True
            else:
                fs.no_yield = True
        fs.in_method = method_of is not None
        decos = self.decorators(sc)
        args, sig = self.arguments(fs, sc, depth, 'p%d' % k)
        if method_of is not None:
            kindm = self.weighted([('self', 6), ('static', 1), ('class', 1)])
            if kindm == 'self' or kindm == 'class':
                first = ast.arg(arg='self' if kindm == 'self' else 'cls', annotation=None)
                if args.posonlyargs:
                    args.posonlyargs.insert(0, first)
                else:
                    args.args.insert(0, first)
                fs.assigned[first.arg] = 'any'
                if kindm == 'class':
                    decos.append(Name('classmethod'))
            else:
                decos.append(Name('staticmethod'))
                fs.in_method = False
        returns = self.annotation(sc) if self.chance(.15) else None
        # global / nonlocal declarations
        pre = []
        if self.chance(.12):
            gl = r.sample(sorted(self.globals), 1 + r.randrange(2))
            fs.globals_declared = set(gl)
            pre.append(ast.Global(names=gl))
        outer_f = sc if sc.kind == 'function' else None
        if outer_f is not None and self.chance(.2):
            cand = [n for n in outer_f.assigned if n.startswith('v%d_' % outer_f.idx)]
            if cand:
                nl = r.sample(sorted(cand), 1)
                fs.nonlocals = set(nl)
                pre.append(ast.Nonlocal(names=nl))
                # the enclosing function must not delete them: it never deletes v-names
        body = []
        if self.chance(.25):
            body.append(ast.Expr(value=Const(self.pick(['Docstring.', 'Doc with "quotes" and \\ backslash.\n\n    >>> 1 + 1\n    2\n', 'ünïcode doc']))))
        body += pre
        saved_budget = self.budget
        self.budget = min(self.budget, int(60 * self.size))
        body += self.block(fs, depth + 1, n=self.weighted([(1, 2), (2, 3), (4, 3), (7, 1.5)]))
        self.budget = saved_budget - 20
        cls = ast.AsyncFunctionDef if fs.is_async else ast.FunctionDef
        node = cls(name=name, args=args, body=body, decorator_list=decos, returns=returns, lineno=0)
        if sc.kind == 'module' and not decos:
            nposonly, npos, ndef, kwonly, var, kw, argnames = sig
            self.funcs[name] = (npos - ndef, npos, [], var, kw)
        self.bind(sc, name, 'any')
        return node

    def s_classdef(self, sc, depth):
        r = self.r
        self.nclass += 1
        k = self.nclass
        name = 'C%d' % k if sc.kind == 'module' else self.new_local(sc, 'K')
        cs = Scope('class', sc, k)
        bases = []
        if self.chance(.5):
            cand = list(self.classes) + ['object', 'Exception', 'dict']
            bases = [Name(self.pick(cand))]
        kws = []
        if self.chance(.1):
            kws = [ast.keyword(arg='metaclass', value=Name('type'))]
        body = []
        if self.chance(.3):
            body.append(ast.Expr(value=Const('Class docstring.')))
        if self.chance(.2):
            body.append(ast.Assign(targets=[Name('__slots__', _S)], value=ast.Tuple(elts=[Const(a) for a in ATTRS[:3]], ctx=_L), lineno=0))
        for _ in range(self.weighted([(1, 2), (2, 3), (4, 2), (6, 1)])):
            f = self.weighted([('method', 5), ('attr', 3), ('annattr', 1), ('stmt', 1), ('nested', .3), ('prop', .8)])
            if f == 'method':
                mname = self.pick(['__init__', '__repr__', '__eq__', '__len__', '__getitem__', '__call__', '__enter__',
                                   '__exit__', '__iter__', 'method%d' % r.randrange(50), 'run', 'get_value', '__add__',
                                   '__hash__', '__bool__', 'update'])
                body.append(self.s_funcdef(cs, depth + 1, method_of=cs, name=mname))
                cs.assigned[mname] = 'any'
            elif f == 'attr':
                body.append(self.s_assign(cs, depth + 1))
            elif f == 'annattr':
                body.append(self.s_annassign(cs, depth + 1))
            elif f == 'prop':
                pn = 'prop%d' % r.randrange(20)
                fn = self.s_funcdef(cs, depth + 1, method_of=cs, name=pn)
                if not isinstance(fn, ast.AsyncFunctionDef) and not any(isinstance(d, ast.Name) and d.id in ('staticmethod', 'classmethod') for d in fn.decorator_list):
                    fn.decorator_list = [Name('property')]
                    fn.args = ast.arguments(posonlyargs=[], args=[ast.arg(arg='self', annotation=None)], vararg=None, kwonlyargs=[],
                                            kw_defaults=[], kwarg=None, defaults=[])
                    fn.body = [s for s in fn.body if isinstance(s, (ast.Global, ast.Nonlocal))] + \
                              [ast.Return(value=ast.Attribute(value=Name('self'), attr=self.pick(ATTRS), ctx=_L))]
                body.append(fn)
                cs.assigned[pn] = 'any'
            elif f == 'nested':
                body.append(self.s_classdef(cs, depth + 2))
            else:
                st = self.statement(cs, 4, allow_defs=False)
                body.extend(st if isinstance(st, list) else [st])
        node = ast.ClassDef(name=name, bases=[b for b in bases if b is not None], keywords=kws, body=body,
                            decorator_list=self.decorators(sc) if self.chance(.15) else [], lineno=0)
        if sc.kind == 'module':
            self.classes.append(name)
        self.bind(sc, name, 'any')
        return node

    # ------------------------------------------------------------------ module
    def module(self):
        r = self.r
        self.budget = int(self.weighted([(150, 2), (400, 3), (900, 2), (1800, .7)]) * self.size)
        ms = Scope('module')
        body = []
        if self.chance(.3):
            body.append(ast.Expr(value=Const('Module docstring with %s and {braces}.' % 'percent')))
        # the global pool: all bound here, in straight-line code
        ng = self.weighted([(4, 2), (8, 3), (16, 2), (40, 1 if self.profile == 'names' else .3)])
        for i in range(ng):
            kind = self.pick(('int', 'str', 'list', 'dict', 'float', 'tuple', 'set', 'bool', 'none', 'bytes', 'any', 'any'))
            name = 'g%d' % i
            value = self.atom(ms, kind if kind != 'any' else 'int') if kind != 'any' else ast.Call(func=Name('object'), args=[], keywords=[])
            if isinstance(value, ast.Name):
                value = self.literal(kind if kind not in ('list', 'tuple', 'dict', 'set', 'any') else 'int')
                kind = kind if kind not in ('list', 'tuple', 'dict', 'set') else 'int'
            body.append(ast.Assign(targets=[Name(name, _S)], value=value, lineno=0))
            self.globals[name] = kind
        # decorators used by definitions
        body.append(ast.parse('def deco0(f):\n    return f\n').body[0])
        body.append(ast.parse('def decofactory0(*a, **k):\n    return deco0\n').body[0])
        self.globals['deco0'] = 'any'
        self.globals['decofactory0'] = 'any'
        for n in list(self.globals):
            ms.assigned[n] = self.globals[n]
        ndefs = self.weighted([(2, 2), (4, 3), (8, 2), (14, 1)])
        if self.profile == 'names':
            ndefs += 6
        for _ in range(ndefs):
            if self.budget <= -2000:
                break
            f = self.weighted([('func', 5), ('class', 2), ('stmt', 3)])
            self.budget = max(self.budget, int(120 * self.size))
            if f == 'func':
                node = self.s_funcdef(ms, 0)
                self.globals[node.name] = 'any'
                body.append(node)
            elif f == 'class':
                node = self.s_classdef(ms, 0)
                self.globals[node.name] = 'any'
                body.append(node)
            else:
                st = self.statement(ms, 1, allow_defs=False)
                body.extend(st if isinstance(st, list) else [st])
            # module-level names bound by statements become readable globals from here on
            for n, k in ms.assigned.items():
                self.globals.setdefault(n, k)
        if self.chance(.4):
            body.append(ast.parse("if __name__ == '__main__':\n    pass\n").body[0])
        mod = ast.Module(body=body, type_ignores=[])
        ast.fix_missing_locations(mod)
        text = ast.unparse(mod) + '\n'
        kinds = collections.Counter(type(n).__name__ for n in ast.walk(mod))
        return text, {'kinds': kinds, 'profile': self.profile, 'features': sorted(self.features)}


# the name pool of module-level statements must be visible to functions defined *later* only through self.globals;
# functions defined earlier never read them (they were not in self.globals when those bodies were generated).


def generate(rng, profile='mixed', size=1.0, max_tries=20):
    """-> (text, info) of a module that CPython compiles; info['rejected'] counts discarded attempts"""
    import warnings
    rejected = 0
    reasons = []
    for _ in range(max_tries):
        g = ModuleGen(rng, profile=profile, size=size)
        try:
            text, info = g.module()
            with warnings.catch_warnings():
                warnings.simplefilter('ignore')
                compile(text, '<pysyntax>', 'exec', dont_inherit=True)
        except (SyntaxError, ValueError, RecursionError) as e:
            rejected += 1
            reasons.append('%s: %s' % (type(e).__name__, str(e)[:80]))
            continue
        info['rejected'] = rejected
        info['reject_reasons'] = reasons
        return text, info
    raise RuntimeError('pysyntax: no valid module in %d tries: %s' % (max_tries, reasons[-3:]))
