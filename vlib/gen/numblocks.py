"""Numeric value pools and block evaluation shared by the C06/C07/C08 checks.

The module is imported both by the check process (to build pools, to map a block index back to the
argument tuple, to evaluate defect models) and by the differential driver (as an ``env_mods`` entry),
where ``set_pools(spec)`` is run by the ``setup`` text and ``callmany`` evaluates a whole slice of a
pool in one driver case.  Pools are pure functions of their spec (kind, seed, n), so both sides see
the same argument tuples without shipping them through JSON.
"""
import math
import random
import struct

inf = math.inf
nan = math.nan

__all__ = ['callmany', 'set_pools', 'outcome', 'POOLS']

POOLS = {}


def outcome(f, args):
    """type-qualified, exact text of one observation"""
    try:
        r = f(*args)
    except Exception as e:
        return '! ' + type(e).__name__
    return type(r).__name__ + ' ' + repr(r)


def callmany(M, fname, pool, i, j):
    f = getattr(M, fname)
    return '\n'.join([outcome(f, a) for a in POOLS[pool][i:j]])


def set_pools(spec):
    """spec: {name: [kind, seed, n]}; kind 'pickle' loads a pool the check process built and dumped (seed = path)"""
    for name, (kind, seed, n) in spec.items():
        if kind == 'pickle':
            import pickle
            with open(seed, 'rb') as f:
                POOLS[name] = pickle.load(f)
        else:
            POOLS[name] = build_pool(kind, seed, n)
    return POOLS


def dump_pools(pools, directory, prefix='pool'):
    """write pools (dict name -> list of argument tuples) as pickles, return the spec for set_pools"""
    import os
    import pickle
    spec = {}
    for name, items in pools.items():
        path = os.path.join(directory, '%s_%s.pickle' % (prefix, name))
        with open(path, 'wb') as f:
            pickle.dump(items, f, protocol=4)
        spec[name] = ['pickle', path, len(items)]
    return spec


def build_pool(kind, seed, n):
    """kind: a name from _KINDS or 'package.module:function' (function(rng, n) -> list of argument tuples)"""
    rng = random.Random('numblocks:%s:%s' % (kind, seed))
    if ':' in kind:
        import importlib
        mn, fn = kind.split(':')
        return getattr(importlib.import_module(mn), fn)(rng, n)
    return _KINDS[kind](rng, n)


def block_cases(fname, pool, n, tag, bs=100, call='callmany'):
    """driver cases evaluating pool[0:n] on function fname in slices of bs"""
    return [{'x': '%s(M, %r, %r, %d, %d)' % (call, fname, pool, i, min(n, i + bs)), 't': tag,
             'blk': [fname, pool, i, min(n, i + bs)]} for i in range(0, n, bs)]


def explode(mismatch, pools):
    """mismatch record of a block case -> list of (fname, args, expected text, observed text) that differ;
    a side that raised as a whole (should not happen) yields one entry with args None"""
    fname, pool, i, j = mismatch['case']['blk']
    exp, got = mismatch['exp'], mismatch['got']
    if exp[0] != 'ok' or got[0] != 'ok':
        return [(fname, None, repr(exp), repr(got))]
    import ast
    e = ast.literal_eval(exp[1][1]).split('\n')
    g = ast.literal_eval(got[1][1]).split('\n')
    out = []
    args = pools[pool][i:j]
    if len(e) != len(args) or len(g) != len(args):
        return [(fname, None, 'block of %d' % len(e), 'block of %d' % len(g))]
    for a, x, y in zip(args, e, g):
        if x != y:
            out.append((fname, a, x, y))
    return out


def sig_to_text(o):
    """outcome of a per-call driver observation (['ok', sig] / ['exc', name]) in callmany's text form"""
    if o[0] == 'exc':
        return '! ' + o[1]
    s = o[1]
    if len(s) == 2 and isinstance(s[1], str):
        return s[0] + ' ' + s[1]
    return repr(s)


# ----------------------------------------------------------------------------- doubles

def bits_double(rng):
    return struct.unpack('<d', struct.pack('<Q', rng.getrandbits(64)))[0]


def nextafter_n(x, n):
    for _ in range(abs(n)):
        x = math.nextafter(x, inf if n > 0 else -inf)
    return x


def rand_double(rng):
    k = rng.randrange(8)
    if k == 0:
        return bits_double(rng)
    if k == 1:
        return rng.uniform(-100, 100)
    if k == 2:
        return rng.randrange(-1000, 1000) / rng.choice([1, 2, 4, 8, 10, 100, 1000, 3, 7])
    if k == 3:
        return math.ldexp(rng.uniform(-1, 1), rng.randrange(-1074, 1024))
    if k == 4:
        return float(rng.randrange(-2 ** 62, 2 ** 62) >> rng.randrange(0, 62))
    if k == 5:
        return rng.choice([1, -1]) * 10.0 ** rng.randrange(-30, 30)
    if k == 6:
        return rng.choice([0.0, -0.0, inf, -inf, nan, 5e-324, -5e-324, 1.7976931348623157e308, 2.2250738585072014e-308,
                           0.1, 0.2, 0.3, 0.7, 1.0, -1.0, 0.5, 1e16, 9007199254740992.0])
    return math.ldexp(rng.uniform(-1, 1), rng.randrange(-60, 60))


def double_pairs(rng, n):
    """(a, b) pairs for binary operators; biased towards quotients that are (nearly) integral, operands of
    similar magnitude, decimal fractions and extremes, where % and // are delicate"""
    out = []
    while len(out) < n:
        k = rng.randrange(10)
        if k <= 1:
            a, b = bits_double(rng), bits_double(rng)
        elif k == 2:
            b = rand_double(rng)
            a = b * rng.uniform(-1000, 1000) if b == b and abs(b) != inf else rand_double(rng)
        elif k <= 5:
            # near-multiples: a = m*b moved by a few ulps (quotient rounds to an integer although fmod != 0)
            b = rng.choice([rng.randrange(1, 1000) / rng.choice([10, 100, 1000, 3, 7, 9, 11]), rng.uniform(1e-3, 1e3),
                            math.ldexp(rng.uniform(0.5, 1), rng.randrange(-300, 300))])
            m = rng.choice([rng.randrange(1, 50), rng.randrange(1, 10 ** 6), rng.randrange(1, 2 ** 53)])
            a = nextafter_n(m * b, rng.randrange(-2, 3))
            if rng.random() < 0.3:
                a = -a
            if rng.random() < 0.3:
                b = -b
        elif k == 6:
            a, b = rand_double(rng), rng.choice([inf, -inf, 0.0, -0.0, nan, 5e-324, -5e-324, 1.7976931348623157e308,
                                                 -1.7976931348623157e308])
            if rng.random() < 0.3:
                a, b = b, a
        elif k == 7:
            # quotient underflows / overflows
            a = math.ldexp(rng.uniform(-1, 1), rng.randrange(-1074, -900))
            b = math.ldexp(rng.uniform(-1, 1), rng.randrange(900, 1024))
            if rng.random() < 0.5:
                a, b = b, a
        else:
            a, b = rand_double(rng), rand_double(rng)
        out.append((a, b))
    return out


def double_singles(rng, n):
    out = []
    while len(out) < n:
        k = rng.randrange(6)
        if k == 0:
            x = rng.randrange(-10 ** 6, 10 ** 6) + rng.choice([0.5, -0.5, 0.49999999999999994, 0.25, 0.0])
        elif k == 1:
            x = rng.randrange(-10 ** 5, 10 ** 5) / 1000.0 + rng.choice([0.005, 0.0005, 0.0])
        elif k == 2:
            x = nextafter_n(float(rng.choice([2 ** 31, 2 ** 52, 2 ** 53, 2 ** 62, 2 ** 63, 2 ** 64, 2 ** 1023]))
                            * rng.choice([1, -1]), rng.randrange(-2, 3))
        else:
            x = rand_double(rng)
        out.append((x,))
    return out


def double_long_pairs(rng, n):
    out = []
    for _ in range(n):
        m = rng.choice([0, 1, -1, 2, -3, 7, 10, 2 ** 31 - 1, -2 ** 31, 2 ** 53 + 1, 2 ** 63 - 1, -2 ** 63,
                        rng.randrange(-2 ** 63, 2 ** 63), rng.randrange(-1000, 1000)])
        out.append((rand_double(rng), m))
    return out


def double_int_pairs(rng, n):
    """(double, small int) e.g. round(x, n)"""
    return [(double_singles(rng, 1)[0][0], rng.randrange(-330, 330) if rng.random() < .3 else rng.randrange(-5, 18))
            for _ in range(n)]


# ----------------------------------------------------------------------------- complex

COMPONENT_SPECIALS = [0.0, -0.0, 1.0, -1.0, 2.5, -2.5, 0.5, 3.0, 5e-324, -5e-324, 1e-300, 2.2250738585072014e-308,
                      1e200, -1e200, 1e308, 1.7976931348623157e308, -1.7976931348623157e308, inf, -inf, nan]


def rand_component(rng):
    k = rng.randrange(6)
    if k == 0:
        return rng.choice(COMPONENT_SPECIALS)
    if k == 1:
        return float(rng.randrange(-20, 20))
    if k == 2:
        return rng.uniform(-10, 10)
    if k == 3:
        return math.ldexp(rng.uniform(-1, 1), rng.randrange(-1074, 1024))
    if k == 4:
        return rng.randrange(-1000, 1000) / 8.0
    return math.ldexp(rng.uniform(-1, 1), rng.randrange(-40, 40))


def rand_complex(rng):
    return complex(rand_component(rng), rand_component(rng))


def complex_pairs(rng, n):
    return [(rand_complex(rng), rand_complex(rng)) for _ in range(n)]


def complex_singles(rng, n):
    return [(rand_complex(rng),) for _ in range(n)]


def complex_int_pairs(rng, n):
    return [(rand_complex(rng), rng.choice([0, 1, 2, 3, 4, -1, -2, -3, 5, 7, 10, 17, -9, 64, 100, rng.randrange(-40, 40)]))
            for _ in range(n)]


def complex_double_pairs(rng, n):
    return [(rand_complex(rng), rand_component(rng)) for _ in range(n)]


# ----------------------------------------------------------------------------- ints (C07)

def int_pow_pairs(rng, n):
    """(base, exponent) for C integer powers: many results that just fit / just overflow 31/63 bits"""
    out = []
    while len(out) < n:
        k = rng.randrange(6)
        if k == 0:
            b, e = rng.randrange(-12, 13), rng.randrange(0, 70)
        elif k == 1:
            b, e = rng.choice([2, -2, 3, -3, 5, 7, 10, -10, 15, 16]), rng.randrange(0, 66)
        elif k == 2:
            b, e = rng.randrange(-2 ** 31, 2 ** 31), rng.randrange(0, 4)
        elif k == 3:
            e = rng.randrange(1, 64)
            r = int(round((2 ** rng.choice([31, 63])) ** (1.0 / e)))
            b, e = rng.choice([1, -1]) * max(0, r + rng.randrange(-2, 2)), e
        elif k == 4:
            b, e = rng.randrange(-50, 50), rng.randrange(-6, 6)
        else:
            b, e = rng.choice([0, 1, -1, 2, -2]), rng.choice([0, 1, 2, 3, 4, 31, 32, 62, 63, 64, 65, 1000, 2 ** 31 - 1, -1, -2])
        out.append((b, e))
    return out


def double_pow_pairs(rng, n):
    out = []
    while len(out) < n:
        k = rng.randrange(6)
        if k == 0:
            a, b = rand_double(rng), rand_double(rng)
        elif k == 1:
            a, b = rng.uniform(-10, 10), float(rng.randrange(-10, 10))
        elif k == 2:
            a, b = rng.uniform(-10, 0), rng.choice([0.5, -0.5, 1.5, 0.25, 1 / 3.0, 2.5, rng.uniform(-4, 4)])
        elif k == 3:
            a, b = rng.choice([0.0, -0.0, 1.0, -1.0, inf, -inf, nan]), rand_double(rng)
        elif k == 4:
            a, b = rand_double(rng), rng.choice([0.0, -0.0, 1.0, -1.0, inf, -inf, nan, 2.0, 3.0, 0.5])
        else:
            a, b = rng.uniform(0, 100), rng.uniform(-200, 200)
        out.append((a, b))
    return out


def double_intexp_pairs(rng, n):
    return [(rng.choice([rand_double(rng), rng.uniform(-10, 10), float(rng.randrange(-5, 6))]),
             rng.choice([0, 1, 2, 3, 4, -1, -2, -3, 5, 10, -10, 63, 64, 1000, -1000, rng.randrange(-50, 50)]))
            for _ in range(n)]


def int_doubleexp_pairs(rng, n):
    return [(rng.choice([0, 1, -1, 2, -2, 3, 10, -8, 4, 9, rng.randrange(-100, 100), rng.randrange(-2 ** 31, 2 ** 31)]),
             rng.choice([0.0, -0.0, 0.5, -0.5, 1.0, 2.0, -1.0, 3.0, 1.5, inf, -inf, nan, rng.uniform(-5, 5), float(rng.randrange(-8, 8))]))
            for _ in range(n)]


_KINDS = {
    'double_pairs': double_pairs, 'double_singles': double_singles, 'double_long_pairs': double_long_pairs,
    'double_int_pairs': double_int_pairs, 'complex_pairs': complex_pairs, 'complex_singles': complex_singles,
    'complex_int_pairs': complex_int_pairs, 'complex_double_pairs': complex_double_pairs,
    'int_pow_pairs': int_pow_pairs, 'double_pow_pairs': double_pow_pairs, 'double_intexp_pairs': double_intexp_pairs,
    'int_doubleexp_pairs': int_doubleexp_pairs,
}


def lit(v):
    """evaluable, exact expression text for a float/complex/int value (names inf, nan come from vlib.values)"""
    if isinstance(v, complex):
        return 'complex(%s, %s)' % (lit(v.real), lit(v.imag))
    if isinstance(v, float):
        if v != v:
            return 'nan'
        if v == inf:
            return 'inf'
        if v == -inf:
            return '-inf'
    return repr(v)


def args_lit(args):
    return '(%s,)' % ', '.join(lit(a) for a in args)
