"""Boundary differential driver (monitor M1). Runs in a fresh subprocess.

Loads the compiled module and the reference (same source exec'd by CPython, or a reference model
module) and evaluates every case on both, on separately constructed inputs, comparing deep
signatures. Usage: python -m vlib.diffdriver spec.json
"""
import faulthandler
import gc
import hashlib
import importlib
import json
import os
import sys
import types

from vlib.sig import sig, sig_exc

faulthandler.enable()


class Log:
    def __init__(self):
        self.items = []

    def __call__(self, *xs):
        for x in xs:
            self.items.append(sig(x))
        return xs[0] if xs else None


def load_ref(name, path):
    m = types.ModuleType(name)
    m.__file__ = path
    with open(path, encoding='utf-8') as f:
        src = f.read()
    sys.modules[name] = m
    exec(compile(src, path, 'exec'), m.__dict__)
    return m


def main():
    spec = json.load(open(sys.argv[1]))
    if spec.get('stderr_path'):
        # sanitizer runtimes write some reports (UBSan in a combined ASan+UBSan build) to fd 2 only
        fd = os.open('%s.%d' % (spec['stderr_path'], os.getpid()), os.O_WRONLY | os.O_CREAT | os.O_APPEND, 0o644)
        os.dup2(fd, 2)
    sys.path.insert(0, spec['builddir'])
    sys.setrecursionlimit(spec.get('recursionlimit', 400))
    cmp = spec.get('compare', {})
    exc_args = cmp.get('exc_args', False)
    exc_chain = cmp.get('exc_chain', False)
    post_args = cmp.get('post_args', False)
    use_log = cmp.get('log', True)
    env = {}
    for mn in spec.get('env', ['vlib.values']):
        m = importlib.import_module(mn)
        for k in getattr(m, '__all__', [k for k in vars(m) if not k.startswith('_')]):
            env[k] = getattr(m, k)
    if spec.get('setup'):
        exec(spec['setup'], env)
    log = Log()
    pre = spec.get('preset') or {}
    # reference first: a crash while importing the compiled module is then attributable
    if spec.get('ref_mod'):
        R = importlib.import_module(spec['ref_mod'])
    else:
        R = load_ref('ref_' + spec['mod'], spec['ref'])
    C = importlib.import_module(spec['mod'])
    cfile = getattr(C, '__file__', '') or ''
    if not cfile.endswith('.so'):
        print(json.dumps({'fatal': 'module under test is not a compiled extension: %r' % cfile}))
        return 4
    for M in (R, C):
        try:
            M.log = log
        except Exception:
            pass
        for k, v in pre.items():
            setattr(M, k, eval(v, env))
    cases = json.load(open(spec['cases']))
    start = spec.get('start', 0)
    pfd = os.open(spec['progress'], os.O_WRONLY | os.O_CREAT, 0o644)
    out = open(spec['out'], 'a')
    hist = {}
    distinct = set()
    nmis = 0
    samples = []
    nsample = spec.get('nsample', 6)
    max_mis = spec.get('max_mismatch_records', 400)
    gc_every = spec.get('gc_every', 0)

    def observe(M, case, genv):
        log.items = []
        genv['M'] = M
        genv['log'] = log
        args = None
        try:
            if 'x' in case:
                r = eval(case['x'], genv)
            else:
                f = getattr(M, case['f'])
                args = eval(case['a'], genv) if case.get('a') else ()
                if not isinstance(args, tuple):
                    args = (args,)
                kw = eval(case['k'], genv) if case.get('k') else {}
                r = f(*args, **kw)
            o = ['ok', sig(r)]
        except RecursionError as e:
            o = ['exc', 'RecursionError']
        except Exception as e:
            o = sig_exc(e, with_args=exc_args, chain=exc_chain)
        except BaseException as e:
            if isinstance(e, (KeyboardInterrupt, SystemExit)) and not spec.get('catch_base'):
                raise
            o = sig_exc(e, with_args=exc_args, chain=exc_chain)
        if post_args and args is not None:
            try:
                o.append(['post', sig(args)])
            except Exception as e:
                o.append(['post-error', type(e).__name__])
        if use_log:
            o.append(['log', log.items])
        return o

    genv = dict(env)
    dump = open('%s.%d' % (spec['dump_outcomes'], os.getpid()), 'a') if spec.get('dump_outcomes') else None
    skip_ref = bool(spec.get('skip_ref'))
    for i in range(start, len(cases)):
        case = cases[i]
        os.pwrite(pfd, b'%12d' % i, 0)
        got = None
        if skip_ref:
            exp = got = observe(C, case, genv)
        else:
            exp = observe(R, case, genv)
            got = observe(C, case, genv)
        if dump is not None:
            # one line per case: id given by the caller, outcome of the compiled module (cross-configuration monitors)
            dump.write(json.dumps([case.get('id', i), got]) + '\n')
        cls = exp[0] + ':' + (exp[1][0] if exp[0] == 'ok' else exp[1])
        tag = case.get('t', case.get('f', '?'))
        key = '%s|%s' % (tag, cls)
        hist[key] = hist.get(key, 0) + 1
        h = hashlib.blake2b(repr((case.get('f', case.get('x')), exp)).encode('utf-8', 'replace'), digest_size=8).digest()
        distinct.add(h)
        if exp != got:
            nmis += 1
            if nmis <= max_mis:
                out.write(json.dumps({'i': i, 'case': case, 'exp': exp, 'got': got}) + '\n')
                out.flush()
        elif len(samples) < nsample and (i % max(1, len(cases) // nsample) == 0):
            samples.append({'case': case, 'observed': exp})
        if gc_every and i % gc_every == 0:
            gc.collect()
    os.pwrite(pfd, b'%12d' % len(cases), 0)
    if dump is not None:
        dump.close()
    out.write(json.dumps({'done': True, 'n': len(cases) - start, 'nmismatch': nmis, 'hist': hist,
                          'distinct': len(distinct), 'samples': samples, 'cfile': cfile}) + '\n')
    out.close()
    return 0


if __name__ == '__main__':
    rc = main()
    sys.stdout.flush()
    os._exit(rc)
