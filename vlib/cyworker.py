"""Translation worker: runs the *interpreted* compiler from the source mirror on a list of jobs.
Invoked as: python -m vlib.cyworker <jobs.json> <result.json>
jobs.json = {"mirror": path, "plugins": [modname...], "jobs": [{src, out?, directives?, cplus?,
             language_level?, options?, full_module_name?}, ...]}"""
import io
import json
import os
import sys
import time
import traceback


def main():
    spec = json.load(open(sys.argv[1]))
    res = {'results': [], 'plugins': {}, 'mirror_ok': False}
    import Cython
    import Cython.Compiler.Code as _Code
    import Cython.Compiler.Scanning as _Scanning
    import Cython.Plex.Scanners as _PS
    mroot = os.path.realpath(spec['mirror'])
    files = [m.__file__ for m in (Cython, _Code, _Scanning, _PS)]
    res['mirror_ok'] = all(f.endswith('.py') and os.path.realpath(f).startswith(mroot) for f in files)
    res['module_files'] = files
    if not res['mirror_ok']:
        json.dump(res, open(sys.argv[2], 'w'))
        return 3
    plugins = []
    for name in spec.get('plugins', ()):
        mod = __import__(name, fromlist=['x'])
        mod.install(spec.get('plugin_args', {}).get(name))
        plugins.append((name, mod))
    from Cython.Compiler.Main import compile as cy_compile, CompilationOptions, default_options
    from Cython.Compiler import Errors, Options
    for job in spec['jobs']:
        t0 = time.time()
        r = {'src': job['src'], 'ok': False, 'c': None, 'errors': '', 'exc': None, 'num_errors': None}
        saved = {}
        for k, v in (job.get('global_options') or {}).items():
            saved[k] = getattr(Options, k)
            setattr(Options, k, v)
        err = io.StringIO()
        old_stderr = sys.stderr
        sys.stderr = err
        try:
            opts = dict(default_options)
            opts['language_level'] = job.get('language_level', 3)
            d = dict(job.get('directives') or {})
            if d:
                dd = Options.get_directive_defaults().copy() if hasattr(Options, 'get_directive_defaults') else {}
                dd.update(d)
                opts['compiler_directives'] = dd
            if job.get('cplus'):
                opts['cplus'] = True
            if job.get('out'):
                opts['output_file'] = job['out']
            opts.update(job.get('options') or {})
            options = CompilationOptions(**opts)
            result = cy_compile(job['src'], options, full_module_name=job.get('full_module_name'))
            r['num_errors'] = result.num_errors
            r['c'] = result.c_file
            r['ok'] = result.num_errors == 0 and bool(result.c_file) and os.path.exists(result.c_file)
        except BaseException as e:   # noqa - the monitor records compiler crashes, never propagates
            if isinstance(e, KeyboardInterrupt):
                raise
            r['exc'] = traceback.format_exc()
        finally:
            sys.stderr = old_stderr
            for k, v in saved.items():
                setattr(Options, k, v)
        r['errors'] = err.getvalue()[-8000:]
        r['wall'] = round(time.time() - t0, 3)
        for name, mod in plugins:
            if hasattr(mod, 'per_job'):
                try:
                    r.setdefault('plugin', {})[name] = mod.per_job(job, r)
                except Exception:
                    r.setdefault('plugin', {})[name] = {'plugin_error': traceback.format_exc()}
        res['results'].append(r)
    for name, mod in plugins:
        try:
            res['plugins'][name] = mod.collect()
        except Exception:
            res['plugins'][name] = {'plugin_error': traceback.format_exc()}
    with open(sys.argv[2], 'w') as f:
        json.dump(res, f, default=repr)
    return 0


if __name__ == '__main__':
    sys.exit(main())
