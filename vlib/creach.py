"""Static reach: which generated C function bodies mention which helpers."""
import re

_DEF = re.compile(r'^static [^;=]*?\b(__pyx_(?:pf|pw|f|gb|lambda)\w*)\([^;]*\)\s*\{\s*$')


def function_bodies(ctext):
    """dict: C function name -> body text, for Cython-generated user functions."""
    out = {}
    cur = None
    buf = []
    for line in ctext.splitlines():
        if line.startswith('static ') and line.rstrip().endswith('{'):
            m = _DEF.match(line)
            if m:
                if cur:
                    out[cur] = '\n'.join(buf)
                cur = m.group(1)
                buf = []
                continue
        if cur is not None:
            buf.append(line)
            if line == '}':
                out[cur] = '\n'.join(buf)
                cur = None
                buf = []
    if cur:
        out[cur] = '\n'.join(buf)
    return out


def bodies_by_token(ctext, tokens):
    """For python-level function names that are unique tokens (e.g. 'fz12z'), map the token to the
    concatenated bodies of all C functions whose name contains it."""
    fb = function_bodies(ctext)
    res = {}
    for cname, body in fb.items():
        for m in re.finditer(r'fz\d+z', cname):
            res.setdefault(m.group(0), []).append(body)
    return {t: '\n'.join(res.get(t, [])) for t in tokens}


def helpers_in(body, pattern=r'__Pyx_\w+'):
    return set(re.findall(pattern, body))
