"""In-compiler monitor shared by C21 and C40 (runs inside the translate worker, on the mirrored pure-Python compiler).

* records, per compiled module, which untyped locals the type inferer turned into C types
  (wrapper around TypeInference.SimpleAssignmentTypeInferer.infer_types);
* counts the local-variable NameNodes for which result code is generated, by definedness facts
  (cf_is_null / cf_maybe_null) and by whether the variable is a Python object or a C value, i.e. how many reads
  are compiled with / without a run-time "unbound" check (wrapper around ExprNodes.NameNode.generate_result_code).
"""

_state = {'inferred': [], 'names': {}, 'calls': 0, 'unbound_msgs': []}


def install(args):
    from Cython.Compiler import TypeInference, ExprNodes, PyrexTypes
    cls = TypeInference.SimpleAssignmentTypeInferer
    orig_infer = cls.infer_types

    def infer_types(self, scope):
        unspecified = [name for name, e in scope.entries.items() if e.type is PyrexTypes.unspecified_type]
        r = orig_infer(self, scope)
        _state['calls'] += 1
        for name in unspecified:
            e = scope.entries.get(name)
            if e is None or e.type is None:
                continue
            if not e.type.is_pyobject and not e.type.is_error and e.type is not PyrexTypes.unspecified_type:
                maybe_unbound = any(getattr(ref.node, 'cf_maybe_null', False) or getattr(ref.node, 'cf_is_null', False)
                                    for ref in getattr(e, 'cf_references', ()) if hasattr(ref, 'node'))
                int_into_float = False
                try:
                    if e.type.is_float:
                        # some assigned value is not a float (C integer, Python int/bool object, ...)
                        def floaty(t):
                            return t.is_float or (getattr(t, 'is_builtin_type', False) and getattr(t, 'name', '') == 'float')
                        int_into_float = any(getattr(a, 'inferred_type', None) is not None and not floaty(a.inferred_type)
                                             for a in e.cf_assignments)
                except Exception:
                    pass
                _state['inferred'].append([str(getattr(scope, 'qualified_name', '?')), str(name), str(e.type),
                                           bool(maybe_unbound), bool(int_into_float)])
        return r

    cls.infer_types = infer_types

    NameNode = ExprNodes.NameNode
    orig_gen = NameNode.generate_result_code

    def generate_result_code(self, code):
        e = self.entry
        if e is not None and (e.is_local or e.in_closure or e.from_closure) and not e.is_arg:
            k = '%s/%s' % ('is_null' if self.cf_is_null else 'maybe_null' if self.cf_maybe_null else 'bound',
                           'pyobject' if (e.type is not None and e.type.is_pyobject) else 'ctype')
            _state['names'][k] = _state['names'].get(k, 0) + 1
        return orig_gen(self, code)

    NameNode.generate_result_code = generate_result_code

    # complete list of "referenced before assignment" diagnostics of check_definitions (the error text kept by the
    # worker is truncated): [line, name, 'definite' | 'maybe', 'error' | 'warning']
    from Cython.Compiler import FlowControl
    if not FlowControl.__file__.endswith('.py'):
        raise RuntimeError('FlowControl is not the mirrored python source')

    def wrap(fn, level):
        def report(position, message, *a, **k):
            try:
                if 'referenced before assignment' in message:
                    import re
                    m = re.search(r"local variable '(\w+)'", message)
                    _state['unbound_msgs'].append([position[1], m.group(1) if m else '?',
                                                   'maybe' if 'might be' in message else 'definite', level])
            except Exception:
                pass
            return fn(position, message, *a, **k)
        return report

    FlowControl.warning = wrap(FlowControl.warning, 'warning')
    FlowControl.error = wrap(FlowControl.error, 'error')


def per_job(job, result):
    out = {'inferred': _state['inferred'], 'names': _state['names'], 'infer_calls': _state['calls'],
           'unbound_msgs': _state['unbound_msgs']}
    _state['unbound_msgs'] = []
    _state['inferred'] = []
    _state['names'] = {}
    _state['calls'] = 0
    return out


def collect():
    return {}
