"""Translate-worker plugin: histogram of syntax-tree node classes of every compiled module, taken twice -
right after PostParse ('early': what the parser produced) and when code generation starts ('final': what the
transforms left). Reach evidence for C20/C19/C18 (which assignment / call / comparison / format nodes the generated
programs really exercised)."""
import collections

_counts = {'early': collections.Counter(), 'final': collections.Counter()}
_per_job = {'early': collections.Counter(), 'final': collections.Counter()}


def _count(tree, phase):
    from Cython.Compiler.Visitor import TreeVisitor

    class V(TreeVisitor):
        def visit_Node(self, node):
            _counts[phase][type(node).__name__] += 1
            _per_job[phase][type(node).__name__] += 1
            self.visitchildren(node)
    V().visit(tree)


def install(args):
    from Cython.Compiler import ParseTreeTransforms, ModuleNode
    orig_pp = ParseTreeTransforms.PostParse.__call__

    def pp_call(self, root):
        r = orig_pp(self, root)
        try:
            _count(r, 'early')
        except Exception:
            pass
        return r
    ParseTreeTransforms.PostParse.__call__ = pp_call
    orig_pi = ModuleNode.ModuleNode.process_implementation

    def pi(self, options, result):
        try:
            _count(self, 'final')
        except Exception:
            pass
        return orig_pi(self, options, result)
    ModuleNode.ModuleNode.process_implementation = pi


def per_job(job, result):
    out = {k: dict(v) for k, v in _per_job.items()}
    for v in _per_job.values():
        v.clear()
    return out


def collect():
    return {k: dict(v) for k, v in _counts.items()}
