"""Pipeline outcome monitor (M7) for the translate worker: records every error the compiler *reports* in structured
form (class, position, message, crash cause and innermost compiler frame) and bounds the CPU time of each compilation
(ITIMER_VIRTUAL: process CPU seconds, so a loaded machine does not fire it).

plugin args: {"cpu_budget_s": 120, "recursion_limit": null}
per_job -> {"errors": [...], "cpu_timeout": bool, "cpu_s": float}
"""
import os
import signal
import sys
import time
import traceback

_errors = []
_state = {'timeout': False, 'cpu0': 0.0, 'budget': 120.0, 'evaluations': 0, 'timeouts': 0}


class CpuBudgetExceeded(BaseException):
    pass


def _innermost(tb):
    frames = traceback.extract_tb(tb) if tb is not None else []
    cy = [f for f in frames if os.sep + 'Cython' + os.sep in f.filename]
    f = (cy or frames or [None])[-1]
    if f is None:
        return None
    return '%s.%s' % (os.path.splitext(os.path.basename(f.filename))[0], f.name)


def _phase_of(err):
    """pipeline phase in which an error was produced: the frame called directly by Pipeline.run_pipeline's run()"""
    frames = []
    f = sys._getframe(2)
    while f is not None:
        frames.append(f)
        if f.f_code.co_name == 'run_pipeline':
            break
        f = f.f_back
    else:
        frames = []
    cand = None
    if frames and len(frames) >= 3:
        # frames[-1] = run_pipeline, [-2] = run, [-3] = the phase
        cand = frames[-3]
    if cand is None or frames[-2].f_code.co_name != 'run':
        # error object raised and reported by run_pipeline itself: use its traceback
        tb = getattr(err, '__traceback__', None)
        chain = []
        while tb is not None:
            chain.append(tb.tb_frame)
            tb = tb.tb_next
        names = [fr.f_code.co_name for fr in chain]
        if 'run' in names and names.index('run') + 1 < len(chain):
            cand = chain[names.index('run') + 1]
        else:
            return None
    if cand.f_code.co_name == '__call__' and 'self' in cand.f_locals:
        return type(cand.f_locals['self']).__name__
    return cand.f_code.co_name


def install(args):
    args = args or {}
    _state['budget'] = float(args.get('cpu_budget_s') or 120)
    if args.get('recursion_limit'):
        sys.setrecursionlimit(int(args['recursion_limit']))
    from Cython.Compiler import Errors, Main
    orig_report = Errors.report_error

    def report_error(err, use_stack=True):
        st = Errors.threadlocal.cython_errors_stack
        if not (st and use_stack) and not getattr(err, 'reported', False):
            try:
                pos = getattr(err, 'position', None)
                rec = {'cls': type(err).__name__, 'msg': str(getattr(err, 'message_only', err))[:600], 'pos': None}
                try:
                    rec['phase'] = _phase_of(err)
                except Exception:
                    rec['phase'] = None
                if pos:
                    try:
                        nlines = len(pos[0].get_lines())
                    except Exception:
                        nlines = None
                    rec['pos'] = [str(pos[0].get_error_description())[-80:], pos[1], pos[2], nlines]
                if isinstance(err, Errors.CompilerCrash):
                    a = err.args
                    cause = a[3] if len(a) > 3 else None
                    tb = a[4] if len(a) > 4 else None
                    rec['crash'] = {'context': str(a[1])[:80], 'cause': type(cause).__name__ if cause is not None else None,
                                    'cause_msg': str(cause)[:300], 'where': _innermost(tb or getattr(cause, '__traceback__', None))}
                _errors.append(rec)
            except Exception:
                _errors.append({'cls': 'MONITOR-ERROR', 'msg': traceback.format_exc()[-400:], 'pos': None})
        return orig_report(err, use_stack)

    Errors.report_error = report_error

    def on_timer(signum, frame):
        _state['timeout'] = True
        raise CpuBudgetExceeded('compilation used more than %s CPU seconds' % _state['budget'])

    signal.signal(signal.SIGVTALRM, on_timer)
    orig_compile = Main.compile

    def compile(source, options=None, full_module_name=None, **kw):
        del _errors[:]
        _state['timeout'] = False
        _state['cpu0'] = time.process_time()
        _state['evaluations'] += 1
        signal.setitimer(signal.ITIMER_VIRTUAL, _state['budget'])
        try:
            return orig_compile(source, options, full_module_name, **kw)
        finally:
            signal.setitimer(signal.ITIMER_VIRTUAL, 0)
            _state['cpu'] = time.process_time() - _state['cpu0']

    Main.compile = compile


def per_job(job, result):
    out = {'errors': list(_errors), 'cpu_timeout': _state['timeout'], 'cpu_s': round(_state.get('cpu', 0.0), 3)}
    if _state['timeout']:
        _state['timeouts'] += 1
    exc = result.get('exc')
    if exc:
        # exception that escaped Main.compile: innermost compiler frame from the traceback text
        lines = [l for l in exc.splitlines() if l.strip().startswith('File ')]
        cy = [l for l in lines if os.sep + 'Cython' + os.sep in l]
        last = (cy or lines or [''])[-1]
        import re
        m = re.search(r'File "([^"]+)", line \d+, in (\S+)', last)
        out['escaped'] = {'type': exc.strip().splitlines()[-1].split(':')[0][:60],
                          'where': '%s.%s' % (os.path.splitext(os.path.basename(m.group(1)))[0], m.group(2)) if m else None,
                          'last_line': exc.strip().splitlines()[-1][:300]}
    del _errors[:]
    return out


def collect():
    return {'evaluations': _state['evaluations'], 'cpu_timeouts': _state['timeouts'], 'cpu_budget_s': _state['budget']}
