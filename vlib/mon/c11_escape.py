"""C11 live contract (translate-worker plugin): icontract postconditions on the real
StringEncoding.escape_byte_string / split_string_literal / escape_char while the interpreted compiler compiles real
modules.  The condition is the reference C-literal decoder (vlib/ref/cliteral.py): what the function returns must
denote exactly the bytes it was given."""
import os
import sys

from vlib.ref import cliteral as CL

_st = {'evaluations': {'escape_byte_string': 0, 'split_string_literal': 0, 'escape_char': 0}, 'violations': [],
       'bytes_checked': 0, 'installed': False}


class EscapeContractError(AssertionError):
    pass


def _viol(key, inp, result, extra=None):
    if len(_st['violations']) < 10:
        v = {'key': key, 'input_hex': bytes(inp)[:400].hex() if not isinstance(inp, str) else None,
             'input_text_tail': inp[-120:] if isinstance(inp, str) else None, 'result_tail': repr(result)[-160:]}
        if extra:
            v.update(extra)
        _st['violations'].append(v)


def escape_denotes_input(bytestring, result):
    _st['evaluations']['escape_byte_string'] += 1
    _st['bytes_checked'] += len(bytestring)
    try:
        got = CL.decode_string_initializer('"' + result + '"')
    except CL.CDecodeError as ex:
        _viol('escape_byte_string:decoder-rejects', bytestring, result, {'error': str(ex)})
        return True
    if got != bytes(bytestring):
        _viol('escape_byte_string:bytes-differ', bytestring, result)
    return True


def split_keeps_value(s, result):
    _st['evaluations']['split_string_literal'] += 1
    try:
        want = CL.decode_string_initializer('"' + s + '"')
    except CL.CDecodeError:
        return True        # not an escaped literal body: nothing to compare
    try:
        got = CL.decode_string_initializer('"' + result + '"')
    except CL.CDecodeError as ex:
        _viol('split_string_literal:decoder-rejects', s, result, {'error': str(ex)})
        return True
    if got != want:
        _viol('split_string_literal:value-changed', s, result)
    return True


def char_denotes_input(char, result):
    _st['evaluations']['escape_char'] += 1
    try:
        got = CL.decode_char_constant("'" + result + "'")
    except CL.CDecodeError as ex:
        _viol('escape_char:decoder-rejects', char, result, {'error': str(ex)})
        return True
    if got != bytes(char)[0]:
        _viol('escape_char:value-differs', char, result)
    return True


def install(args):
    deps = os.path.join(os.path.dirname(os.path.dirname(os.path.dirname(os.path.abspath(__file__)))), '.deps')
    if deps not in sys.path:
        sys.path.append(deps)
    import icontract
    import Cython.Compiler.StringEncoding as SE
    f = SE.__file__
    mirror = (args or {}).get('mirror')
    if not f.endswith('.py') or (mirror and not os.path.realpath(f).startswith(os.path.realpath(mirror) + os.sep)):
        raise RuntimeError('StringEncoding is not the interpreted source from the mirror: %r' % f)
    real_escape, real_split, real_char = SE.escape_byte_string, SE.split_string_literal, SE.escape_char

    @icontract.ensure(escape_denotes_input, error=EscapeContractError)
    def escape_byte_string(bytestring):
        return real_escape(bytestring)

    @icontract.ensure(split_keeps_value, error=EscapeContractError)
    def split_string_literal(s, limit=2000):
        return real_split(s, limit)

    @icontract.ensure(char_denotes_input, error=EscapeContractError)
    def escape_char(char):
        return real_char(char)

    SE.escape_byte_string = escape_byte_string
    SE.split_string_literal = split_string_literal
    SE.escape_char = escape_char
    _st['installed'] = True


def collect():
    return {'installed': _st['installed'], 'evaluations': _st['evaluations'], 'violations': _st['violations'],
            'bytes_checked': _st['bytes_checked']}
