"""C12 compiler-side monitor (M6): wraps the LZSS entry of Code.compression_algorithms (the function object the
string-table writer actually calls) with an icontract postcondition: the independent reference decoder must
reproduce the input from the compressed bytes and consume all of them.  Every real string table is also dumped to
`args['dump_dir']` so that the check can push it through the real C decompressor."""
import os
import sys

_state = {'evals': 0, 'violations': [], 'tables': [], 'bytes': 0}


class LZSSContractViolation(AssertionError):
    pass


def roundtrips_by_reference_decoder(result, data):
    from vlib.ref import lzss_ref
    _state['evals'] += 1
    _state['bytes'] += len(data)
    try:
        out, used, _ = lzss_ref.decode(result, len(data))
    except lzss_ref.BadStream:
        return False
    return out == data and used == len(result)


def install(args):
    from vlib import core
    deps = core.ensure_deps()
    if deps not in sys.path:
        sys.path.append(deps)
    import icontract
    import Cython.Compiler.Code as Code
    dump = (args or {}).get('dump_dir')
    for i, (num, name, fn) in enumerate(Code.compression_algorithms):
        if name != 'lzss' or fn is None:
            continue
        contracted = icontract.ensure(roundtrips_by_reference_decoder,
                                      error=lambda result, data: LZSSContractViolation('lzss_compress output does not decode to its input'))(fn)

        def lzss_compress(data, _fn=fn, _c=contracted):
            if dump and data:
                p = os.path.join(dump, 'table_%d_%d.bin' % (os.getpid(), len(_state['tables'])))
                with open(p, 'wb') as f:
                    f.write(data)
                _state['tables'].append(p)
            try:
                return _c(data)
            except LZSSContractViolation:
                if len(_state['violations']) < 10:
                    _state['violations'].append({'n': len(data), 'data_hex': data.hex() if len(data) <= 70000 else None})
                return _fn(data)

        Code.compression_algorithms[i] = (num, name, lzss_compress)
        _state['wrapped'] = getattr(fn, '__module__', '?')


def collect():
    return _state
