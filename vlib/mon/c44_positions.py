"""C44 compiler-side monitor (M6), installed inside the translate worker before any compilation.

* icontract postcondition on LineTable.build_line_table (bound in LineTable and in ExprNodes, which
  imported the name): the bytes, installed into a code object, must decode with CPython's own
  co_positions() to exactly the input list.  A violated contract is recorded and the compilation
  continues with the encoder's result.
* shadow record of every code object the compiler emits: (function name, first line, node_positions)
  taken in CodeObjectNode.generate_codeobj, i.e. exactly the list handed to the encoder for that object.
* contract on AnalyseExpressionsTransform._build_positions: the recorded ranges are start-sorted,
  single-line, non-overlapping within a line and node_positions_to_offset maps every node position to
  the range that starts at that position.
"""
import os
import sys

_state = {'contract_evals': 0, 'contract_violations': [], 'forms': {}, 'codeobjs': {}, 'bp_evals': 0,
          'bp_violations': [], 'positions_encoded': 0, 'install': {}}
_cur = {'records': []}


class LineTableContractViolation(AssertionError):
    pass


def _dummy():
    pass


def _decode(table, first, n):
    code = _dummy.__code__.replace(co_linetable=table, co_firstlineno=first, co_code=b'\x00\x00' * max(n, 1))
    return [tuple(p) for p in code.co_positions()]


def table_decodes_to_input(result, positions, firstlineno):
    _state['contract_evals'] += 1
    _state['positions_encoded'] += len(positions)
    table = result.encode('latin1')
    for b in table:
        if b & 128:
            c = (b >> 3) & 15
            k = {10: 'oneline0', 11: 'oneline1', 12: 'oneline2', 14: 'long'}.get(c, 'short' if c < 10 else 'other')
            _state['forms'][k] = _state['forms'].get(k, 0) + 1
    return _decode(table, firstlineno, len(positions)) == [tuple(p) for p in positions]


def install(args):
    from vlib import core
    deps = core.ensure_deps()
    if deps not in sys.path:
        sys.path.append(deps)
    import icontract
    import Cython.Compiler.LineTable as LT
    orig = LT.build_line_table
    contracted = icontract.ensure(
        table_decodes_to_input,
        error=lambda result, positions, firstlineno: LineTableContractViolation(
            'line table does not decode to its input: positions=%r firstlineno=%r' % (positions, firstlineno)))(orig)

    def build_line_table(positions, firstlineno):
        try:
            return contracted(positions, firstlineno)
        except LineTableContractViolation:
            rec = {'positions': [list(p) for p in positions], 'firstlineno': firstlineno}
            try:
                r = orig(positions, firstlineno)
                rec['observed'] = [list(p) for p in _decode(r.encode('latin1'), firstlineno, len(positions))]
            except Exception as e:
                rec['error'] = '%s: %s' % (type(e).__name__, e)
                raise
            finally:
                if len(_state['contract_violations']) < 20:
                    _state['contract_violations'].append(rec)
            return r

    LT.build_line_table = build_line_table
    import Cython.Compiler.ExprNodes as EN
    EN.build_line_table = build_line_table
    _state['install'] = {'LineTable': LT.__file__, 'ExprNodes': EN.__file__}

    orig_gen = EN.CodeObjectNode.generate_codeobj

    def generate_codeobj(self, code, error_label):
        func = self.def_node
        try:
            _cur['records'].append({'name': str(func.name), 'first': self.pos[1],
                                    'positions': [list(p) for p in (func.node_positions or [])]})
        except Exception as e:
            _cur['records'].append({'error': repr(e)})
        return orig_gen(self, code, error_label)

    EN.CodeObjectNode.generate_codeobj = generate_codeobj

    import Cython.Compiler.ParseTreeTransforms as PTT
    orig_bp = PTT.AnalyseExpressionsTransform._build_positions

    def _build_positions(self, func_node):
        node_pos = set(self.positions[-1])
        orig_bp(self, func_node)
        _state['bp_evals'] += 1
        ranges = func_node.node_positions
        bad = None
        keys = [(r[0], r[2]) for r in ranges]
        if keys != sorted(keys):
            bad = 'not start-sorted'
        elif any(r[0] != r[1] or r[3] <= r[2] for r in ranges):
            bad = 'empty or multi-line range recorded'
        elif any(a[0] == b[0] and a[3] > b[2] for a, b in zip(ranges, ranges[1:])):
            bad = 'overlapping ranges in one line'
        elif set(keys) != {(p[1], p[2]) for p in node_pos}:
            bad = 'ranges do not start exactly at the node positions'
        else:
            offs = func_node.local_scope.node_positions_to_offset
            for p, i in offs.items():
                if not (0 <= i < len(ranges)) or (ranges[i][0], ranges[i][2]) != (p[1], p[2]):
                    bad = 'node_positions_to_offset points at another range'
                    break
            if bad is None and set(offs) != node_pos:
                bad = 'node_positions_to_offset misses node positions'
        if bad and len(_state['bp_violations']) < 20:
            _state['bp_violations'].append({'what': bad, 'function': str(getattr(func_node, 'name', '<module>')),
                                            'line': func_node.pos[1], 'ranges': [list(r) for r in ranges][:40]})

    PTT.AnalyseExpressionsTransform._build_positions = _build_positions


def per_job(job, result):
    recs = _cur['records']
    _cur['records'] = []
    _state['codeobjs'][os.path.basename(job['src'])] = recs
    return {'codeobjs': len(recs)}


def collect():
    return _state
