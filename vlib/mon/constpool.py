"""In-compiler constant pool monitor (C09, monitor M6).  Loaded inside the translate worker before the compiler runs.

It wraps, in the *interpreted* compiler of the source mirror,
  * ExprNodes.make_dedup_key            - every top-level call is recorded: the returned key, and an independently built
                                          signature of the run-time value the nodes denote (built from the literal text
                                          of the leaf nodes, not from the key);
  * Code.GlobalState.get_py_const       - which keys are actually used for pooling, and how often a key is hit again;
  * IntNode/FloatNode.generate_evaluation_code - the pooled C name each Python number literal got, against the value
                                          CPython gives the literal text (ast.literal_eval);
  * Optimize.ConstantFolding visit_*    - how many operator nodes were visited / replaced by a literal.
A dedup key (or number constant name) that is shared by nodes denoting different values is a pool collision.

plugin args: {'ablate': True} makes make_dedup_key return None (no pooling of tuples/slices/frozensets); used by the
check as the ablation that decides whether a run-time discrepancy is caused by pooling."""
import ast
import sys

STATE = None
ARGS = {}


def _fresh():
    return {'dedup_calls': 0, 'dedup_none': 0, 'keys': {}, 'py_const_calls': 0, 'py_const_keyed': 0, 'py_const_hits': 0,
            'used_keys': set(), 'num': {}, 'num_calls': 0, 'num_text_mismatch': [], 'fold_visited': 0,
            'fold_replaced': 0, 'sig_errors': 0, 'lines': {}, 'sig_error_kinds': {}}


def _mark(line, flag):
    if line is not None:
        STATE['lines'].setdefault(line, set()).add(flag)


def _vsig(x):
    """deep type-qualified signature (same idea as vlib.sig, local copy: the worker must not depend on the driver)"""
    t = type(x)
    if t in (tuple, list):
        return [t.__name__, [_vsig(e) for e in x]]
    if t is frozenset:
        return ['frozenset', sorted((_vsig(e) for e in x), key=repr)]
    if t is slice:
        return ['slice', _vsig(x.start), _vsig(x.stop), _vsig(x.step)]
    return [t.__name__, repr(x)]


class _Unknown(Exception):
    pass


def _leaf_value(node):
    from Cython.Compiler import ExprNodes as E
    if isinstance(node, E.NoneNode):
        return None
    if isinstance(node, E.BoolNode):
        return bool(node.value)
    if isinstance(node, E.IntNode):
        if node.type.is_pyobject or node.type.is_int:
            try:
                v = ast.literal_eval(node.value)
            except Exception:
                v = node.constant_result
            if node.type.is_int and getattr(node.type, 'is_c_bint', False):   # pragma: no cover
                return bool(v)
            return v
    if isinstance(node, E.FloatNode):
        try:
            return float(ast.literal_eval(node.value))
        except Exception:
            return float(node.value)
    if isinstance(node, E.ImagNode):
        return complex(0.0, float(node.value))
    if isinstance(node, E.UnicodeNode):
        return str(node.value)
    if isinstance(node, E.BytesNode):
        return ('bytes', str(node.value))
    raise _Unknown(type(node).__name__)


def _value(node):
    if type(node).__name__ == 'DefaultLiteralArgNode':
        node = node.arg
    if node.is_sequence_constructor:
        vals = tuple(_value(a) for a in node.args)
        if node.mult_factor is not None and node.is_literal:
            vals = vals * _value(node.mult_factor)
        return vals
    if node.is_slice:
        return slice(_value(node.start), _value(node.stop), _value(node.step))
    return _leaf_value(node)


def _denoted(outer_type, item_nodes, caller):
    """the run-time value the pooled object will have, from the node tree"""
    if outer_type.is_pyfrozenset_type:
        items = [_value(n) for n in item_nodes]
        if caller == 'FrozenSetNode':      # frozenset(<iterable node>): the single item is the iterable
            if len(items) != 1:
                raise _Unknown('FrozenSetNode arity')
            items = list(items[0])
        return frozenset(items), [_vsig(e) for e in items]
    nodes = list(item_nodes)
    if len(nodes) == 1 and nodes[0] is not None and nodes[0].is_slice:
        return _value(nodes[0]), None
    # tuple: [mult_factor or None] + args
    mult, args = nodes[0], nodes[1:]
    vals = tuple(_value(a) for a in args)
    if mult is not None:
        vals = vals * _value(mult)
    return vals, None


def _line(nodes):
    for n in nodes:
        if n is not None and getattr(n, 'pos', None):
            return n.pos[1]
    return None


def install(args):
    global STATE, ARGS
    ARGS = args or {}
    STATE = _fresh()
    from Cython.Compiler import ExprNodes, Code, Optimize
    orig_key = ExprNodes.make_dedup_key
    depth = [0]

    def make_dedup_key(outer_type, item_nodes):
        item_nodes = list(item_nodes)
        depth[0] += 1
        try:
            key = orig_key(outer_type, item_nodes)
        finally:
            depth[0] -= 1
        if depth[0]:
            return key
        st = STATE
        st['dedup_calls'] += 1
        if key is None:
            st['dedup_none'] += 1
            return None
        if ARGS.get('ablate'):
            return None
        try:
            caller = type(sys._getframe(1).f_locals.get('self')).__name__
            val, order = _denoted(outer_type, item_nodes, caller)
            _mark(_line(item_nodes), 'pool')
            s = repr(_vsig(val))
            o = repr(order) if order is not None else None
        except _Unknown as e:
            st['sig_errors'] += 1
            st['sig_error_kinds'][str(e)] = st['sig_error_kinds'].get(str(e), 0) + 1
            return key
        except Exception as e:
            st['sig_errors'] += 1
            k = 'error:' + type(e).__name__
            st['sig_error_kinds'][k] = st['sig_error_kinds'].get(k, 0) + 1
            return key
        rec = st['keys'].setdefault(key, {'sigs': {}, 'n': 0})
        rec['n'] += 1
        ent = rec['sigs'].setdefault(s, {'n': 0, 'line': _line(item_nodes), 'sig': _vsig(val), 'orders': set(),
                                         'lines': [], 'via_default': False})
        ent['n'] += 1
        if any(type(n).__name__ == 'DefaultLiteralArgNode' for n in item_nodes if n is not None):
            ent['via_default'] = True
        if len(ent['lines']) < 40:
            ent['lines'].append(_line(item_nodes))
        if o is not None:
            ent['orders'].add(o)
        return key

    ExprNodes.make_dedup_key = make_dedup_key

    orig_get = Code.GlobalState.get_py_const

    def get_py_const(self, prefix, dedup_key=None):
        st = STATE
        st['py_const_calls'] += 1
        if dedup_key is not None:
            st['py_const_keyed'] += 1
            if dedup_key in self.dedup_const_index:
                st['py_const_hits'] += 1
            st['used_keys'].add(dedup_key)
        return orig_get(self, prefix, dedup_key)

    Code.GlobalState.get_py_const = get_py_const

    def wrap_num(cls, kind):
        orig = cls.generate_evaluation_code

        def generate_evaluation_code(self, code):
            orig(self, code)
            try:
                if not self.type.is_pyobject:
                    return
                st = STATE
                st['num_calls'] += 1
                _mark(self.pos[1], 'num')
                text = self.value
                try:
                    want = ast.literal_eval(text)
                    if kind == 'float':
                        want = float(want)
                except Exception:
                    want = None
                cr = self.constant_result
                if want is not None and isinstance(cr, (int, float)) and repr(_vsig(want)) != repr(_vsig(
                        float(cr) if kind == 'float' else cr)):
                    # bool results of folded C comparisons etc. are not literals: only compare plain numbers
                    if type(cr) in (int, float):
                        st['num_text_mismatch'].append({'text': text, 'python': _vsig(want), 'constant_result': _vsig(cr),
                                                        'line': self.pos[1]})
                if want is None:
                    want = cr
                rec = st['num'].setdefault(self.result_code, {})
                e = rec.setdefault(repr(_vsig(want)), {'n': 0, 'line': self.pos[1], 'text': text})
                e['n'] += 1
            except Exception:
                STATE['sig_errors'] += 1

        cls.generate_evaluation_code = generate_evaluation_code

    wrap_num(ExprNodes.IntNode, 'int')
    wrap_num(ExprNodes.FloatNode, 'float')

    CF = Optimize.ConstantFolding
    for name in ('visit_BinopNode', 'visit_UnopNode', 'visit_PrimaryCmpNode', 'visit_BoolBinopNode',
                 'visit_CondExprNode'):
        def mk(orig):
            def visit(self, node):
                r = orig(self, node)
                STATE['fold_visited'] += 1
                if r is not node and getattr(r, 'is_literal', False):
                    STATE['fold_replaced'] += 1
                    _mark(node.pos[1], 'fold')
                return r
            return visit
        setattr(CF, name, mk(getattr(CF, name)))


def per_job(job, result):
    """summarise and reset the per-module state"""
    global STATE
    st = STATE
    STATE = _fresh()
    collisions = []
    shared = 0
    for key, rec in st['keys'].items():
        if rec['n'] >= 2:
            shared += 1
        problems = []
        if len(rec['sigs']) >= 2:
            problems = list(rec['sigs'].values())
        else:
            # one value signature but different element orders of mutually equal items cannot happen (same value)
            pass
        if problems and key in st['used_keys']:
            collisions.append({'outer': str(key[0]), 'values': [{'sig': p['sig'], 'line': p['line'], 'n': p['n'],
                                                                 'lines': p['lines'], 'orders': sorted(p['orders']),
                                                                 'via_default': p['via_default']}
                                                                for p in problems]})
    num_coll = []
    for cname, rec in st['num'].items():
        if len(rec) >= 2:
            num_coll.append({'cname': cname, 'values': [{'sig': k, 'line': v['line'], 'text': v['text']}
                                                        for k, v in rec.items()]})
    return {'dedup_calls': st['dedup_calls'], 'dedup_none': st['dedup_none'], 'keys': len(st['keys']),
            'shared_keys': shared, 'py_const_calls': st['py_const_calls'], 'py_const_keyed': st['py_const_keyed'],
            'py_const_hits': st['py_const_hits'], 'collisions': collisions, 'num_calls': st['num_calls'],
            'num_consts': len(st['num']), 'num_shared': sum(1 for r in st['num'].values()
                                                            if sum(e['n'] for e in r.values()) >= 2),
            'num_collisions': num_coll, 'num_text_mismatch': st['num_text_mismatch'][:20],
            'fold_visited': st['fold_visited'], 'fold_replaced': st['fold_replaced'], 'sig_errors': st['sig_errors'],
            'sig_error_kinds': st['sig_error_kinds'],
            'lines': {str(k): sorted(v) for k, v in st['lines'].items()}}


def collect():
    return {}
