"""C49 in-situ monitor (translate-worker plugin): every Cython.StringIOTree.StringIOTree instance created
while the interpreted compiler serves real compilations is a monitored subclass that shadows itself with the
list-of-holes model (vlib.ref.holes).  Every observation the compiler itself makes (getvalue / copyto /
allmarkers / empty) is compared with the model at that moment, and at the end of each job every unplaced
(root) buffer is compared once more.

The subclass does not re-implement any operation: it records the call in the model and delegates to the real
method.  `write` and `markers` are instance attributes of the real class, so they are intercepted with
data descriptors that keep the real objects and hand out recording wrappers."""
import io
import os

from vlib.ref.holes import Hole

_state = {
    'installed': False, 'trees': [], 'mism': [], 'n_trees': 0, 'n_frag': 0, 'n_ip': 0, 'n_insert': 0,
    'n_reset': 0, 'n_commit': 0, 'n_obs': {'getvalue': 0, 'copyto': 0, 'allmarkers': 0, 'empty': 0},
    'n_markers': 0, 'in_commit': 0, 'in_obs': 0, 'tot': {},
}
MAX_MISM = 20


class MarkerList(list):
    """the real markers list; extend/append also queue the markers for the next written fragment"""
    __slots__ = ('owner',)

    def extend(self, it):
        it = list(it)
        o = self.owner
        if o is not None:
            o._c49_pending.extend(it)
        list.extend(self, it)

    def append(self, x):
        o = self.owner
        if o is not None:
            o._c49_pending.append(x)
        list.append(self, x)

    def __iadd__(self, it):
        self.extend(it)
        return self


def _mismatch(kind, tree, expected, observed):
    st = _state
    if len(st['mism']) >= MAX_MISM:
        st['mism_dropped'] = st.get('mism_dropped', 0) + 1
        return
    e, o = expected, observed
    pos = 0
    if isinstance(e, str) and isinstance(o, str):
        n = min(len(e), len(o))
        while pos < n and e[pos] == o[pos]:
            pos += 1
        how = 'length' if len(e) != len(o) else 'content'
        if sorted(e.split('\n')) == sorted(o.split('\n')):
            how = 'lines-reordered'
        elif len(o) < len(e):
            how = 'text-lost'
        elif len(o) > len(e):
            how = 'text-added'
        ctx_e, ctx_o = e[max(0, pos - 200):pos + 300], o[max(0, pos - 200):pos + 300]
    elif isinstance(e, list):
        n = min(len(e), len(o))
        while pos < n and e[pos] == o[pos]:
            pos += 1
        how = 'count' if len(e) != len(o) else ('reordered' if sorted(map(repr, e)) == sorted(map(repr, o)) else 'wrong-marker')
        ctx_e, ctx_o = [repr(x) for x in e[max(0, pos - 3):pos + 5]], [repr(x) for x in o[max(0, pos - 3):pos + 5]]
    else:
        how = 'value'
        ctx_e, ctx_o = repr(e), repr(o)
    st['mism'].append({'kind': kind, 'how': how, 'first_diff_at': pos, 'expected_context': ctx_e,
                       'observed_context': ctx_o, 'holes': tree._c49_model.nholes(),
                       'fragments': sum(1 for _ in tree._c49_model.frags())})


def _make_class(Base):
    class MonitoredStringIOTree(Base):
        def __init__(self, stream=None):
            st = _state
            self._c49_pending = []
            self._c49_model = Hole()
            self._c49_internal = bool(st['in_commit'])
            Base.__init__(self, stream)
            if not self._c49_internal:
                st['n_trees'] += 1
                st['trees'].append(self)

        # -- write: real class stores stream.write in the instance; keep it, hand out the recorder
        def _c49_write(self, s):
            st = _state
            self._c49_model.write(s, self._c49_pending)
            if self._c49_pending:
                st['n_markers'] += len(self._c49_pending)
                self._c49_pending = []
            st['n_frag'] += 1
            return self.__dict__['_c49_raw_write'](s)

        def _get_write(self):
            return self._c49_write

        def _set_write(self, raw):
            self.__dict__['_c49_raw_write'] = raw

        write = property(_get_write, _set_write)

        def _get_markers(self):
            return self.__dict__['_c49_markers']

        def _set_markers(self, v):
            if type(v) is not MarkerList:
                ml = MarkerList(v)
                ml.owner = self
                v = ml
            self.__dict__['_c49_markers'] = v

        markers = property(_get_markers, _set_markers)

        # -- mutators: record, delegate
        def insertion_point(self):
            other = Base.insertion_point(self)
            _state['n_ip'] += 1
            m = other._c49_model
            m.parent = self._c49_model
            self._c49_model.items.append(m)
            return other

        def insert(self, iotree):
            Base.insert(self, iotree)
            _state['n_insert'] += 1
            self._c49_model.insert(iotree._c49_model)

        def commit(self):
            st = _state
            st['in_commit'] += 1
            st['n_commit'] += 1
            try:
                return Base.commit(self)
            finally:
                st['in_commit'] -= 1

        def reset(self):
            Base.reset(self)
            _state['n_reset'] += 1
            self._c49_model.reset()

        # -- observers: delegate, compare with the model (outermost call only; copyto recurses through children)
        def getvalue(self):
            st = _state
            if st['in_obs']:
                return Base.getvalue(self)
            st['in_obs'] += 1
            try:
                v = Base.getvalue(self)
            finally:
                st['in_obs'] -= 1
            st['n_obs']['getvalue'] += 1
            exp = self._c49_model.value()
            if v != exp:
                _mismatch('getvalue', self, exp, v)
            return v

        def copyto(self, target):
            st = _state
            if st['in_obs']:
                return Base.copyto(self, target)
            st['in_obs'] += 1
            cap = io.StringIO()
            try:
                Base.copyto(self, cap)
            finally:
                st['in_obs'] -= 1
            v = cap.getvalue()
            st['n_obs']['copyto'] += 1
            exp = self._c49_model.value()
            if v != exp:
                _mismatch('copyto', self, exp, v)
            if v:
                target.write(v)

        def allmarkers(self):
            st = _state
            if st['in_obs']:
                return Base.allmarkers(self)
            st['in_obs'] += 1
            try:
                v = Base.allmarkers(self)
            finally:
                st['in_obs'] -= 1
            st['n_obs']['allmarkers'] += 1
            exp = self._c49_model.markers()
            if list(v) != exp:
                _mismatch('allmarkers', self, exp, list(v))
            return v

        def empty(self):
            st = _state
            if st['in_obs']:
                return Base.empty(self)
            st['in_obs'] += 1
            try:
                v = Base.empty(self)
            finally:
                st['in_obs'] -= 1
            st['n_obs']['empty'] += 1
            exp = self._c49_model.empty()
            if bool(v) != exp:
                _mismatch('empty', self, exp, v)
            return v

    MonitoredStringIOTree.__name__ = 'StringIOTree'
    MonitoredStringIOTree.__qualname__ = 'StringIOTree'
    return MonitoredStringIOTree


def install(args):
    import Cython.StringIOTree as S
    import Cython.Compiler.Code as Code
    f = S.__file__
    if not f.endswith('.py'):
        raise RuntimeError('Cython.StringIOTree is not the interpreted source: %r' % f)
    mirror = (args or {}).get('mirror')
    if mirror and not os.path.realpath(f).startswith(os.path.realpath(mirror) + os.sep):
        raise RuntimeError('Cython.StringIOTree not imported from the mirror: %r' % f)
    if not Code.__file__.endswith('.py'):
        raise RuntimeError('Cython.Compiler.Code is not interpreted: %r' % Code.__file__)
    Base = S.StringIOTree
    cls = _make_class(Base)
    # the real module creates its children through its global name; Code.py imported the name
    S.StringIOTree = cls
    assert Code.StringIOTree is Base
    Code.StringIOTree = cls
    _state['installed'] = True
    _state['Base'] = Base
    _state['module_file'] = f


def per_job(job, result):
    """end of one real compilation: compare every unplaced (root) buffer, then forget the job's trees"""
    st = _state
    trees = st['trees']
    st['trees'] = []
    out = {'trees': len(trees), 'roots_compared': 0, 'fragments_checked': 0, 'chars_checked': 0, 'lines_checked': 0,
           'max_depth': 0, 'holes': 0, 'markers_checked': 0, 'roots_with_markers_per_line': 0}
    before = st.get('mism_job_start', 0)
    for t in trees:
        m = t._c49_model
        if m.parent is not None:
            continue
        frs = list(m.frags())
        if not frs and not m.items:
            continue
        exp = ''.join([f[0] for f in frs])
        st['in_obs'] += 1
        try:
            got = st['Base'].getvalue(t)
            gm = list(st['Base'].allmarkers(t))
            ge = st['Base'].empty(t)
        finally:
            st['in_obs'] -= 1
        out['roots_compared'] += 1
        out['fragments_checked'] += len(frs)
        out['chars_checked'] += len(exp)
        out['lines_checked'] += exp.count('\n')
        d = m.depth()
        out['holes'] += m.nholes()
        if d > out['max_depth']:
            out['max_depth'] = d
        if got != exp:
            _mismatch('end:getvalue', t, exp, got)
        em = m.markers()
        out['markers_checked'] += len(em)
        if gm != em:
            _mismatch('end:allmarkers', t, em, gm)
        elif em and len(em) == exp.count('\n'):
            out['roots_with_markers_per_line'] += 1
        elif em:
            # a buffer that received markers must have one per line (CCodeWriter protocol)
            _mismatch('end:markers-per-line', t, exp.count('\n'), len(em))
        if bool(ge) != (exp == ''):
            _mismatch('end:empty', t, exp == '', ge)
    out['mismatches'] = st['mism'][before:]
    st['mism_job_start'] = len(st['mism'])
    for k, v in out.items():
        if isinstance(v, int):
            st['tot'][k] = max(st['tot'].get(k, 0), v) if k == 'max_depth' else st['tot'].get(k, 0) + v
    return out


def collect():
    st = _state
    return {'installed': st['installed'], 'module_file': st.get('module_file'), 'trees': st['n_trees'],
            'fragments': st['n_frag'], 'insertion_points': st['n_ip'], 'inserts': st['n_insert'],
            'resets': st['n_reset'], 'commits': st['n_commit'], 'observations_by_compiler': st['n_obs'],
            'markers_recorded': st['n_markers'], 'totals': st['tot'], 'mismatches': st['mism'],
            'mismatches_dropped': st.get('mism_dropped', 0)}
