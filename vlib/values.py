"""Value classes and boundary value pools. Imported both by generators (to produce argument
*expressions*) and by the driver (to evaluate them) - witnesses therefore stay type-qualified."""
import math

inf = math.inf
nan = math.nan


class I(int):
    """int subclass without overrides"""
    __slots__ = ()


class IAdd(int):
    """int subclass overriding arithmetic dunders"""
    def __add__(self, o): return ('IAdd.__add__', int(self), o)
    def __radd__(self, o): return ('IAdd.__radd__', int(self), o)
    def __sub__(self, o): return ('IAdd.__sub__', int(self), o)
    def __rsub__(self, o): return ('IAdd.__rsub__', int(self), o)
    def __mul__(self, o): return ('IAdd.__mul__', int(self), o)
    def __rmul__(self, o): return ('IAdd.__rmul__', int(self), o)
    def __eq__(self, o): return ('IAdd.__eq__', int(self), o)
    def __ne__(self, o): return ('IAdd.__ne__', int(self), o)
    def __and__(self, o): return ('IAdd.__and__', int(self), o)
    def __rand__(self, o): return ('IAdd.__rand__', int(self), o)
    def __lshift__(self, o): return ('IAdd.__lshift__', int(self), o)
    def __rlshift__(self, o): return ('IAdd.__rlshift__', int(self), o)
    def __truediv__(self, o): return ('IAdd.__truediv__', int(self), o)
    def __rtruediv__(self, o): return ('IAdd.__rtruediv__', int(self), o)
    def __floordiv__(self, o): return ('IAdd.__floordiv__', int(self), o)
    def __rfloordiv__(self, o): return ('IAdd.__rfloordiv__', int(self), o)
    def __mod__(self, o): return ('IAdd.__mod__', int(self), o)
    def __rmod__(self, o): return ('IAdd.__rmod__', int(self), o)
    __hash__ = int.__hash__


class F(float):
    __slots__ = ()


class FMul(float):
    def __mul__(self, o): return ('FMul.__mul__', float(self), o)
    def __rmul__(self, o): return ('FMul.__rmul__', float(self), o)
    def __add__(self, o): return ('FMul.__add__', float(self), o)
    def __radd__(self, o): return ('FMul.__radd__', float(self), o)
    def __eq__(self, o): return ('FMul.__eq__', float(self), o)
    __hash__ = float.__hash__


class S(str):
    __slots__ = ()


class B(bytes):
    __slots__ = ()


class L(list):
    pass


class T(tuple):
    __slots__ = ()


class D(dict):
    pass


class St(set):
    pass


class LGet(list):
    """list subclass overriding item access / len / iteration hooks"""
    def __getitem__(self, i): return ('LGet.__getitem__', i if not isinstance(i, slice) else (i.start, i.stop, i.step))
    def __len__(self): return 3
    def append(self, x): list.append(self, ('LGet.append', x))
    def pop(self, *a): return ('LGet.pop', a)


class DGet(dict):
    def __getitem__(self, k): return ('DGet.__getitem__', k)
    def get(self, k, d=None): return ('DGet.get', k, d)
    def __missing__(self, k): return ('DGet.__missing__', k)
    def keys(self): return ['DGet.keys']
    def items(self): return [('DGet.items', 1)]
    def values(self): return ['DGet.values']
    def __iter__(self): return iter(['DGet.__iter__'])


class DMissing(dict):
    def __missing__(self, k): return ('DMissing', k)


class Idx:
    """object with __index__ only"""
    def __init__(self, v): self.v = v
    def __index__(self): return self.v
    def __vsig__(self): return ('Idx', self.v)
    def __repr__(self): return '<%s>' % (self.__vsig__(),)   # deterministic: no addresses in str()/repr()/%s


class IntOnly:
    """object with __int__ only"""
    def __init__(self, v): self.v = v
    def __int__(self): return self.v
    def __vsig__(self): return ('IntOnly', self.v)
    def __repr__(self): return '<%s>' % (self.__vsig__(),)   # deterministic: no addresses in str()/repr()/%s


class IdxRaises:
    def __index__(self): raise KeyError('IdxRaises')
    def __vsig__(self): return 'IdxRaises'
    def __repr__(self): return '<%s>' % (self.__vsig__(),)   # deterministic: no addresses in str()/repr()/%s


class IdxBad:
    def __index__(self): return 'notint'
    def __vsig__(self): return 'IdxBad'
    def __repr__(self): return '<%s>' % (self.__vsig__(),)   # deterministic: no addresses in str()/repr()/%s


class FloatLike:
    def __init__(self, v): self.v = v
    def __float__(self): return self.v
    def __vsig__(self): return ('FloatLike', self.v)
    def __repr__(self): return '<%s>' % (self.__vsig__(),)   # deterministic: no addresses in str()/repr()/%s


class ComplexLike:
    def __init__(self, v): self.v = v
    def __complex__(self): return self.v
    def __vsig__(self): return ('ComplexLike', self.v)
    def __repr__(self): return '<%s>' % (self.__vsig__(),)   # deterministic: no addresses in str()/repr()/%s


class Unhashable:
    __hash__ = None
    def __eq__(self, o): return isinstance(o, Unhashable)
    def __vsig__(self): return 'Unhashable'
    def __repr__(self): return '<%s>' % (self.__vsig__(),)   # deterministic: no addresses in str()/repr()/%s


class HashRaises:
    def __hash__(self): raise ZeroDivisionError('HashRaises')
    def __vsig__(self): return 'HashRaises'
    def __repr__(self): return '<%s>' % (self.__vsig__(),)   # deterministic: no addresses in str()/repr()/%s


class EqRaises:
    def __init__(self, h=1): self.h = h
    def __hash__(self): return self.h
    def __eq__(self, o): raise ZeroDivisionError('EqRaises')
    def __vsig__(self): return ('EqRaises', self.h)
    def __repr__(self): return '<%s>' % (self.__vsig__(),)   # deterministic: no addresses in str()/repr()/%s


class Obj:
    """plain object with a value-based signature and equality"""
    def __init__(self, *a, **k):
        self.a = a
        self.k = k
    def __eq__(self, o): return isinstance(o, Obj) and (self.a, self.k) == (o.a, o.k)
    def __hash__(self): return hash(self.a)
    def __vsig__(self): return ('Obj', self.a, sorted(self.k.items()))
    def __repr__(self): return '<%s>' % (self.__vsig__(),)   # deterministic: no addresses in str()/repr()/%s
    def __repr__(self): return 'Obj%r' % (self.a,)


def gen_list(n):
    def g():
        for i in range(n):
            yield i
    return g()


class IterRaises:
    """iterable that raises after n items"""
    def __init__(self, n, exc=ZeroDivisionError): self.n, self.exc = n, exc
    def __iter__(self):
        for i in range(self.n):
            yield i
        raise self.exc('IterRaises')
    def __vsig__(self): return ('IterRaises', self.n)
    def __repr__(self): return '<%s>' % (self.__vsig__(),)   # deterministic: no addresses in str()/repr()/%s


# ----------------------------------------------------------------------------- pools (generator side)

def int_boundaries(max_digits30=5, extra=()):
    """ints at every 15/30-bit digit boundary +-1, C type bounds +-1, as python ints."""
    s = {0, 1, -1, 2, -2, 3, -3, 7, -7, 8, 10, -10, 100, 255, 256, -128, 127, -129, 128}
    for k in range(1, max_digits30 * 2 + 1):
        for base in (15 * k,):
            for d in (-1, 0, 1):
                s.add(2 ** base + d)
                s.add(-(2 ** base) + d)
    for bits in (8, 16, 31, 32, 63, 64, 127, 128):
        for d in (-2, -1, 0, 1, 2):
            s.add(2 ** bits + d)
            s.add(-(2 ** bits) + d)
    s.update(extra)
    return sorted(s)


SPECIAL_FLOATS = ['0.0', '-0.0', '1.0', '-1.0', '0.5', '-2.5', '1e308', '-1e308', '5e-324', '-5e-324',
                  '2.2250738585072014e-308', '1.7976931348623157e308', 'inf', '-inf', 'nan',
                  '9007199254740992.0', '9007199254740993.0', '1e22', '1e23', '4611686018427387904.0',
                  '9223372036854775807.0', '-9223372036854775808.0', '18446744073709551616.0', '3.5', '1e-5']


def lit(v):
    """expression text for a python value (type-qualified, evaluable in the driver env)"""
    if isinstance(v, float):
        if v != v:
            return 'nan'
        if v in (math.inf, -math.inf):
            return 'inf' if v > 0 else '-inf'
    return repr(v)
