"""Core plumbing shared by every check: paths, scratch space, the source mirror of the
tree under observation, bounded subprocess execution."""
import atexit
import json
import os
import resource
import shutil
import signal
import subprocess
import sys
import tempfile
import time

VERIF = os.path.dirname(os.path.dirname(os.path.abspath(__file__)))
REPO = os.path.abspath(os.environ.get('VERIF_REPO', '/repo'))
PY = os.environ.get('VERIF_PY', '/venv/bin/python')
NCPU = int(os.environ.get('VERIF_NCPU', os.cpu_count() or 4))
HOOK_GUARD = 'CYTHON_CYTHON_VERIF'

_scratch_dirs = []


def _cleanup():
    for d in _scratch_dirs:
        shutil.rmtree(d, ignore_errors=True)


atexit.register(_cleanup)


def _on_term(signum, frame):
    _cleanup()
    os._exit(128 + signum)


def install_signal_cleanup():
    for s in (signal.SIGTERM, signal.SIGINT, signal.SIGHUP):
        try:
            signal.signal(s, _on_term)
        except Exception:
            pass


def scratch(tag='x'):
    """Fresh scratch directory outside /repo and /verif, removed at exit."""
    base = os.environ.get('VERIF_SCRATCH') or tempfile.gettempdir()
    d = tempfile.mkdtemp(prefix='cyv_%s_' % tag, dir=base)
    _scratch_dirs.append(d)
    return d


def mirror(dest_root, repo=None):
    """Copy <repo>/Cython (python sources + utility code, no prebuilt .so, no caches)
    to <dest_root>/Cython and return dest_root (to be put first on PYTHONPATH)."""
    repo = repo or REPO
    os.makedirs(dest_root, exist_ok=True)
    subprocess.run(
        ['rsync', '-a', '--exclude', '*.so', '--exclude', '__pycache__', '--exclude', '*.pyc',
         os.path.join(repo, 'Cython'), dest_root + '/'],
        check=True)
    return dest_root


def child_env(pythonpath=(), extra=None, hashseed='0'):
    env = dict(os.environ)
    for k in ('PYTHONSTARTUP', 'PYTHONHOME'):
        env.pop(k, None)
    pp = [p for p in pythonpath if p]
    env['PYTHONPATH'] = os.pathsep.join(pp)
    env['PYTHONHASHSEED'] = str(hashseed)
    env['PYTHONDONTWRITEBYTECODE'] = '1'
    env.setdefault('PYTHONFAULTHANDLER', '1')
    if extra:
        env.update({k: str(v) for k, v in extra.items()})
    return env


def _limits(as_bytes, cpu_s):
    def fn():
        os.setsid()
        if as_bytes:
            try:
                resource.setrlimit(resource.RLIMIT_AS, (as_bytes, as_bytes))
            except Exception:
                pass
        if cpu_s:
            try:
                resource.setrlimit(resource.RLIMIT_CPU, (cpu_s, cpu_s + 5))
            except Exception:
                pass
        resource.setrlimit(resource.RLIMIT_CORE, (0, 0))
    return fn


class RunResult:
    __slots__ = ('rc', 'out', 'err', 'timed_out', 'wall')

    def __init__(self, rc, out, err, timed_out, wall):
        self.rc, self.out, self.err, self.timed_out, self.wall = rc, out, err, timed_out, wall

    @property
    def crashed(self):
        return self.rc is not None and self.rc < 0 and not self.timed_out


def run(cmd, env=None, cwd=None, timeout=600, as_gb=8, cpu_s=None, input=None, text=True):
    """subprocess.run with a watchdog, own session (whole tree killed on timeout) and rlimits."""
    t0 = time.time()
    p = subprocess.Popen(cmd, env=env, cwd=cwd, stdin=subprocess.PIPE if input is not None else subprocess.DEVNULL,
                         stdout=subprocess.PIPE, stderr=subprocess.PIPE, text=text,
                         preexec_fn=_limits(int(as_gb * 2**30) if as_gb else 0, cpu_s))
    try:
        out, err = p.communicate(input=input, timeout=timeout)
        return RunResult(p.returncode, out, err, False, time.time() - t0)
    except subprocess.TimeoutExpired:
        try:
            os.killpg(p.pid, signal.SIGKILL)
        except Exception:
            p.kill()
        out, err = p.communicate()
        return RunResult(p.returncode, out, err, True, time.time() - t0)


def write_json(path, obj):
    os.makedirs(os.path.dirname(path), exist_ok=True)
    tmp = path + '.tmp%d' % os.getpid()
    with open(tmp, 'w') as f:
        json.dump(obj, f, indent=1, sort_keys=False, default=repr)
        f.write('\n')
    os.replace(tmp, path)


def read_json(path):
    with open(path) as f:
        return json.load(f)


def ensure_deps():
    """icontract/deal beside the repo interpreter, in /verif/.deps (git-ignored, rebuilt
    offline from the wheelhouse when absent). Returns the directory for PYTHONPATH."""
    deps = os.path.join(VERIF, '.deps')
    marker = os.path.join(deps, '.ok')
    if os.path.exists(marker):
        return deps
    import fcntl
    os.makedirs(deps, exist_ok=True)
    with open(os.path.join(deps, '.lock'), 'w') as lk:
        fcntl.flock(lk, fcntl.LOCK_EX)
        if not os.path.exists(marker):
            r = subprocess.run([PY, '-m', 'pip', 'install', '-q', '--no-index', '--find-links',
                                '/opt/veriftools/wheels', '--target', deps, 'icontract', 'deal'],
                               capture_output=True, text=True)
            if r.returncode != 0:
                raise RuntimeError('cannot install icontract/deal offline: ' + r.stderr[-400:])
            open(marker, 'w').close()
    return deps
