"""Translate (interpreted compiler from the mirror) and build (real C compiler) helpers."""
import json
import os
import subprocess
import sysconfig
import threading
from concurrent.futures import ThreadPoolExecutor

from . import core

PY_INC = sysconfig.get_paths()['include']
EXT_SUFFIX = sysconfig.get_config_var('EXT_SUFFIX') or '.so'
_np_inc = None


def numpy_include():
    global _np_inc
    if _np_inc is None:
        r = subprocess.run([core.PY, '-c', 'import numpy;print(numpy.get_include())'],
                           capture_output=True, text=True)
        _np_inc = r.stdout.strip()
    return _np_inc


class Tree:
    """A source mirror of the tree under observation, plus a scratch area for build products."""

    def __init__(self, tag):
        self.root = core.scratch(tag)
        self.mirror = core.mirror(os.path.join(self.root, 'tree'))
        self.work = os.path.join(self.root, 'work')
        os.makedirs(self.work, exist_ok=True)
        self._n = 0
        self._lock = threading.Lock()

    def subdir(self, name):
        d = os.path.join(self.work, name)
        os.makedirs(d, exist_ok=True)
        return d

    def pythonpath(self, *more):
        return [self.mirror, core.VERIF] + list(more)

    def env(self, *more, extra=None, hashseed='0'):
        return core.child_env(self.pythonpath(*more), extra=extra, hashseed=hashseed)

    # ---------------------------------------------------------------- translate
    def translate(self, jobs, nworkers=None, plugins=(), plugin_args=None, timeout=2400, env_extra=None,
                  hashseed='0', chunk=None):
        """jobs: list of dicts (see cyworker). Returns (results in job order, plugin data list)."""
        if not jobs:
            return [], []
        nworkers = max(1, min(nworkers or core.NCPU, len(jobs)))
        chunks = [[] for _ in range(nworkers)]
        for i, j in enumerate(jobs):
            chunks[i % nworkers].append((i, j))
        results = [None] * len(jobs)
        plugdata = []

        def work(wi):
            with self._lock:
                self._n += 1
                n = self._n
            jf = os.path.join(self.work, 'jobs_%d.json' % n)
            rf = os.path.join(self.work, 'res_%d.json' % n)
            with open(jf, 'w') as f:
                json.dump({'mirror': self.mirror, 'plugins': list(plugins), 'plugin_args': plugin_args or {},
                           'jobs': [j for _, j in chunks[wi]]}, f)
            r = core.run([core.PY, '-m', 'vlib.cyworker', jf, rf], env=self.env(extra=env_extra, hashseed=hashseed),
                         timeout=timeout, as_gb=8)
            if os.path.exists(rf):
                data = core.read_json(rf)
                if not data.get('mirror_ok'):
                    raise RuntimeError('source mirror not in effect: %r' % data.get('module_files'))
                for (i, _), rr in zip(chunks[wi], data['results']):
                    results[i] = rr
                plugdata.append(data.get('plugins', {}))
                done = len(data['results'])
            else:
                done = 0
            # worker died (crash / timeout): mark the remaining jobs
            for (i, j) in chunks[wi][done:]:
                results[i] = {'src': j['src'], 'ok': False, 'c': None, 'errors': r.err[-4000:],
                              'exc': 'WORKER_DIED rc=%s timed_out=%s' % (r.rc, r.timed_out), 'num_errors': None,
                              'worker_died': True}

        with ThreadPoolExecutor(nworkers) as ex:
            list(ex.map(work, range(nworkers)))
        return results, plugdata

    # ---------------------------------------------------------------- C build
    def cbuild(self, c_file, so=None, cc=None, cflags=(), ldflags=(), cplus=False, opt='-O0', timeout=2400,
               numpy=False):
        if cc is None:
            cc = 'g++' if cplus else 'gcc'
        if so is None:
            so = os.path.splitext(c_file)[0] + EXT_SUFFIX
        cmd = [cc, '-shared', '-fPIC', '-w', opt, '-I' + PY_INC]
        if numpy:
            cmd.append('-I' + numpy_include())
        cmd += list(cflags) + [c_file, '-o', so] + list(ldflags)
        r = core.run(cmd, timeout=timeout, as_gb=0)
        return {'ok': r.rc == 0 and os.path.exists(so), 'so': so, 'err': (r.err or '')[-6000:], 'cmd': cmd,
                'timed_out': r.timed_out}

    def cbuild_many(self, items, nworkers=None, **kw):
        """items: list of c paths or (c_path, kwargs) tuples."""
        def one(it):
            if isinstance(it, (tuple, list)):
                k = dict(kw)
                k.update(it[1])
                return self.cbuild(it[0], **k)
            return self.cbuild(it, **kw)
        with ThreadPoolExecutor(nworkers or core.NCPU) as ex:
            return list(ex.map(one, items))

    # ---------------------------------------------------------------- both
    def build_sources(self, srcs, subdir='m', ext='.py', directives=None, cplus=False, cflags=(), opt='-O0',
                      plugins=(), job_extra=None, cc=None, numpy=False, ldflags=()):
        """srcs: dict modname -> source text. Returns dict modname -> info
        {src, c, so, ok, stage, errors}. All modules go into one directory (importable)."""
        d = self.subdir(subdir)
        jobs, names = [], []
        for name, text in srcs.items():
            p = os.path.join(d, name + ext)
            with open(p, 'w', encoding='utf-8') as f:
                f.write(text)
            j = {'src': p, 'directives': directives or {}, 'cplus': cplus}
            if job_extra:
                j.update(job_extra)
            jobs.append(j)
            names.append(name)
        tres, plug = self.translate(jobs, plugins=plugins)
        info = {}
        tobuild = []
        for name, j, r in zip(names, jobs, tres):
            info[name] = {'src': j['src'], 'c': r.get('c'), 'so': None, 'ok': False,
                          'stage': 'translate', 'errors': (r.get('exc') or '') + (r.get('errors') or ''),
                          'crash': bool(r.get('exc'))}
            if r['ok']:
                tobuild.append(name)
        bres = self.cbuild_many([info[n]['c'] for n in tobuild], cplus=cplus, cflags=cflags, opt=opt, cc=cc,
                                numpy=numpy, ldflags=ldflags)
        for n, b in zip(tobuild, bres):
            info[n]['stage'] = 'cc'
            info[n]['so'] = b['so']
            info[n]['ok'] = b['ok']
            if not b['ok']:
                info[n]['errors'] = b['err'] or ('C compiler timed out' if b.get('timed_out') else '')
        self.last_plugins = plug
        return d, info
